"""Pristine fork server ("zygote"), its client, and cold (brand-new interpreter) calls.

A zygote is a fresh interpreter that imports ``gettsim`` (and the ``sim`` helper
modules) and then *never calls the GETTSIM API itself*.  Every job is executed in a
forked child which exits afterwards, so each job sees exactly the import-time state of
a new process.  ``session`` jobs run a whole history inside one such child.

Protocol (both directions): 8-byte big-endian length + pickle.
request  = (module, function, args, kwargs, timeout_s)
response = ("ok", value) | ("exc", class name, text, traceback) | ("timeout",) | ("died", status)
"""
from __future__ import annotations

import os
import pickle
import select
import signal
import struct
import subprocess
import sys
import threading
import time

from sim.core import PY, VERIF, HarnessError, child_env


def _read_exact(fd: int, n: int) -> bytes:
    buf = bytearray()
    while len(buf) < n:
        chunk = os.read(fd, min(1 << 20, n - len(buf)))
        if not chunk:
            raise EOFError
        buf += chunk
    return bytes(buf)


def _send(fd: int, obj) -> None:
    data = pickle.dumps(obj, protocol=4)
    os.write(fd, struct.pack(">Q", len(data)))
    view = memoryview(data)
    while view:
        n = os.write(fd, view[: 1 << 20])
        view = view[n:]


def _recv(fd: int):
    (n,) = struct.unpack(">Q", _read_exact(fd, 8))
    return pickle.loads(_read_exact(fd, n))


def _execute(module: str, func: str, args, kwargs):
    import importlib

    mod = importlib.import_module(module)
    return getattr(mod, func)(*args, **kwargs)


def _run_job_in_child(req, wfd: int) -> None:
    """Runs in the forked child.  Never returns."""
    module, func, args, kwargs, timeout_s = req
    code = 0
    try:
        import faulthandler

        faulthandler.enable()
        if timeout_s:
            faulthandler.dump_traceback_later(timeout_s, exit=True)
        try:
            res = ("ok", _execute(module, func, args, kwargs))
        except BaseException as e:  # noqa: BLE001
            import traceback

            res = ("exc", type(e).__name__, str(e)[:2000], traceback.format_exc()[-6000:])
        try:
            _send(wfd, res)
        except BaseException as e:  # noqa: BLE001  (unpicklable result)
            _send(wfd, ("exc", type(e).__name__, "result not picklable: " + str(e)[:500], ""))
    except BaseException:  # noqa: BLE001
        code = 3
    finally:
        try:
            sys.stdout.flush()
            sys.stderr.flush()
        except Exception:  # noqa: BLE001
            pass
        os._exit(code)


def serve() -> None:
    """Main loop of a zygote process."""
    # protocol fds: keep private copies, point fd 0/1 away so library prints cannot
    # corrupt the stream
    rfd = os.dup(0)
    wfd = os.dup(1)
    devnull = os.open(os.devnull, os.O_RDWR)
    os.dup2(devnull, 0)
    os.dup2(2, 1)
    sys.stdout = sys.stderr

    import warnings

    import numpy  # noqa: F401
    import pandas  # noqa: F401

    import _gettsim
    import gettsim  # noqa: F401

    from sim.core import REPO_SRC

    if not os.path.realpath(_gettsim.__file__).startswith(os.path.realpath(str(REPO_SRC))):
        _send(wfd, ("fatal", f"_gettsim imported from {_gettsim.__file__}, not from {REPO_SRC}"))
        os._exit(2)
    # helper modules (none of them calls the API at import)
    import sim.compare  # noqa: F401
    import sim.popgen  # noqa: F401
    import sim.seams  # noqa: F401
    import sim.userlib  # noqa: F401

    warnings.resetwarnings()
    _send(wfd, ("ready", os.getpid(), os.environ.get("PYTHONHASHSEED")))

    while True:
        try:
            req = _recv(rfd)
        except EOFError:
            os._exit(0)
        if req == "quit":
            os._exit(0)
        timeout_s = req[4] or 600
        cr, cw = os.pipe()
        pid = os.fork()
        if pid == 0:
            os.close(cr)
            os.close(rfd)
            _run_job_in_child(req, cw)
        os.close(cw)
        deadline = time.monotonic() + timeout_s + 5
        chunks = bytearray()
        status = None
        timed_out = False
        while True:
            left = deadline - time.monotonic()
            if left <= 0:
                timed_out = True
                break
            r, _, _ = select.select([cr], [], [], min(left, 5.0))
            if r:
                b = os.read(cr, 1 << 20)
                if not b:
                    break
                chunks += b
        os.close(cr)
        if timed_out:
            try:
                os.kill(pid, signal.SIGKILL)
            except ProcessLookupError:
                pass
        _, status = os.waitpid(pid, 0)
        if timed_out:
            resp = ("timeout",)
        elif len(chunks) >= 8:
            (n,) = struct.unpack(">Q", bytes(chunks[:8]))
            if len(chunks) - 8 == n:
                resp = pickle.loads(bytes(chunks[8:]))
            else:
                resp = ("died", status)
        else:
            resp = ("died", status)
        _send(wfd, resp)


class Zygote:
    """Client handle for one zygote process.  Not thread-safe: one owner thread."""

    def __init__(self, hashseed: int, label: str = ""):
        self.hashseed = hashseed
        self.label = label
        self.proc = None
        self.lock = threading.Lock()

    def start(self):
        if self.proc is not None and self.proc.poll() is None:
            return
        self.proc = subprocess.Popen(
            [PY, "-c", "from sim.zygote import serve; serve()"],
            stdin=subprocess.PIPE,
            stdout=subprocess.PIPE,
            env=child_env(self.hashseed),
            cwd=str(VERIF),
        )
        msg = _recv(self.proc.stdout.fileno())
        if msg[0] != "ready":
            raise HarnessError(f"zygote {self.label} failed to start: {msg}")

    def call(self, module: str, func: str, *args, timeout_s: int = 600, **kwargs):
        with self.lock:
            self.start()
            try:
                _send(self.proc.stdin.fileno(), (module, func, args, kwargs, timeout_s))
                resp = _recv(self.proc.stdout.fileno())
            except (EOFError, BrokenPipeError, OSError) as e:
                self.proc = None
                raise HarnessError(f"zygote {self.label} connection lost: {e!r}") from e
        if resp[0] == "ok":
            return resp[1]
        if resp[0] == "exc":
            raise HarnessError(f"job {module}.{func} raised {resp[1]}: {resp[2]}\n{resp[3]}")
        if resp[0] == "timeout":
            raise HarnessError(f"job {module}.{func} timed out after {timeout_s}s")
        raise HarnessError(f"job {module}.{func} child died: {resp!r}")

    def close(self):
        if self.proc is not None and self.proc.poll() is None:
            try:
                _send(self.proc.stdin.fileno(), "quit")
            except Exception:  # noqa: BLE001
                pass
            try:
                self.proc.wait(timeout=5)
            except Exception:  # noqa: BLE001
                self.proc.kill()
        self.proc = None


def cold_call(module: str, func: str, *args, hashseed: int = 12345, timeout_s: int = 900, **kwargs):
    """Execute one job in a brand-new interpreter (no zygote, no fork)."""
    req = pickle.dumps((module, func, args, kwargs))
    p = subprocess.run(
        [PY, "-c", "from sim.zygote import cold_main; cold_main()"],
        input=req,
        stdout=subprocess.PIPE,
        env=child_env(hashseed),
        cwd=str(VERIF),
        timeout=timeout_s,
        check=False,
    )
    if p.returncode != 0 or not p.stdout:
        raise HarnessError(f"cold job {module}.{func} failed: rc={p.returncode}")
    resp = pickle.loads(p.stdout)
    if resp[0] == "ok":
        return resp[1]
    raise HarnessError(f"cold job {module}.{func} raised {resp[1]}: {resp[2]}\n{resp[3]}")


def cold_main() -> None:
    wfd = os.dup(1)
    os.dup2(2, 1)
    sys.stdout = sys.stderr
    module, func, args, kwargs = pickle.loads(sys.stdin.buffer.read())
    try:
        res = ("ok", _execute(module, func, args, kwargs))
    except BaseException as e:  # noqa: BLE001
        import traceback

        res = ("exc", type(e).__name__, str(e)[:2000], traceback.format_exc()[-6000:])
    data = pickle.dumps(res, protocol=4)
    with os.fdopen(wfd, "wb") as f:
        f.write(data)
    os._exit(0)
