"""C14 driver: seeded search over API histories with faults, pristine-process oracle."""
from __future__ import annotations

import copy
import json
import random
import time

from sim import c14
from sim.core import COMPONENTS, EXIT_OK, EXIT_VIOLATION, REPO_SRC, VERIF, H, HarnessError, digest, jdump, log, write_evidence
from sim.engine import Engine, dump_digests, load_known, match_known, write_replay
from sim.popgen import date_pool

PROP = "C14"
TIERS = {
    "quick": {"runs": 80, "max_ops": 16, "cold_refs": 2, "selftest": 6},
    "thorough": {"runs": 3000, "max_ops": 18, "cold_refs": 50, "selftest": 64},
}
LIB_OPS = ("SETUP", "COMPUTE", "REPEAT", "REWRITE", "BADDATA", "SWEEP")


# ------------------------------------------------------------------ evaluation of one history


def same_outcome(a: dict, b: dict):
    """Return None if equal else a short description of the first difference."""
    if a.get("kind") != b.get("kind"):
        return f"kind:{a.get('kind')}({a.get('cls', '')})-vs-{b.get('kind')}({b.get('cls', '')})"
    k = a["kind"]
    if k == "exc":
        return None if a["cls"] == b["cls"] else f"exc:{a['cls']}-vs-{b['cls']}"
    if k == "frame":
        if a["n"] != b["n"]:
            return "rows"
        ca, cb = a["cols"], b["cols"]
        if [c[0] for c in ca] != [c[0] for c in cb]:
            return "columns"
        for x, y in zip(ca, cb):
            if x != y:
                return f"col:{x[0]}" + ("(dtype)" if x[1] != y[1] else "")
        if a["index"] != b["index"]:
            return "index"
        return None
    if k == "env":
        for g in a["params"]:
            if a["params"].get(g) != b["params"].get(g):
                return f"params:{g}"
        if set(a["params"]) != set(b["params"]):
            return "params:keys"
        for n in a["functions"]:
            if a["functions"].get(n) != b["functions"].get(n):
                return f"functions:{n}"
        if set(a["functions"]) != set(b["functions"]):
            return "functions:keys"
        return None
    if k == "rewrite":
        if a["digest"] == b["digest"]:
            return None
        for n, v in a["per_function"].items():
            if b["per_function"].get(n) != v:
                return f"rewrite:{n}"
        return "rewrite:keys"
    return None if a == b else "other"


def _what_class(what: str) -> str:
    """Coarse class of a difference, used to decide 'same violation' during shrinking."""
    return what.split(":")[0].split("(")[0]


def evaluate(engine: Engine, slot, history: dict, use_memo=True):
    """Run session + references.  Returns (session result, violations, n_compared)."""
    sess = slot.S.call("sim.c14", "run_session", history, timeout_s=900)
    violations = []
    compared = 0
    # references: memo look-up, the rest batched by date (one pristine set-up per date)
    need = {}
    outcomes = {}
    for ev in sess["events"]:
        ref = ev.get("ref")
        if ref is None:
            continue
        key = "c14ref:" + jdump(ref)
        ev["_key"] = key
        hit = engine.memo.get(key) if use_memo else None
        if hit is not None:
            engine.memo_hits += 1
            outcomes[key] = hit
        elif key not in need:
            need[key] = ref
    by_date = {}
    for key, ref in need.items():
        by_date.setdefault((ref["date"], bool(ref.get("np_strict"))), []).append((key, ref))
    for date, strict in sorted(by_date):
        items = by_date[(date, strict)]
        res = slot.R.call("sim.c14", "run_references_batch", date, [r for _, r in items], timeout_s=900)
        for (key, ref), ro in zip(items, res):
            outcomes[key] = ro
            if use_memo:
                with engine.memo_lock:
                    engine.memo.setdefault(key, ro)
                    engine.memo_misses += 1
                    engine.memo_refs[key] = ref
    for ev in sess["events"]:
        for key in ev.get("purity") or []:
            violations.append({"invariant": "I1", "i": ev["i"], "op": ev["op"], "what": key})
        if ev.get("ref") is None:
            continue
        ro = outcomes[ev.pop("_key")]
        ev["ref_outcome_digest"] = digest({k: v for k, v in ro.items() if k != "text"})
        compared += 1
        diff = same_outcome(ev["outcome"], ro)
        if diff is not None:
            violations.append({"invariant": "I2", "i": ev["i"], "op": ev["op"], "what": diff, "session": _brief(ev["outcome"], ev), "reference": _brief(ro, ro)})
    return sess, violations, compared


def _brief(o, src):
    if o.get("kind") == "exc":
        return {"kind": "exc", "cls": o["cls"], "text": src.get("exc_text") or src.get("text")}
    if o.get("kind") == "frame":
        return {"kind": "frame", "n": o["n"], "ncols": len(o["cols"])}
    return {"kind": o.get("kind"), **({"cls": o["cls"]} if "cls" in o else {})}


def vkey(v: dict) -> dict:
    return {"invariant": v["invariant"], "op": v["op"], "what_class": _what_class(v["what"])}


# ------------------------------------------------------------------ minimisation


def minimise(engine: Engine, slot, history: dict, target: dict, budget=70):
    """ddmin over ops, then per-op simplification, while the same violation class persists."""
    want = vkey(target)
    spent = [0]

    def fails(h):
        if spent[0] >= budget:
            return None
        spent[0] += 1
        h = c14.normalize(h)
        if not h["ops"]:
            return None
        _, vio, _ = evaluate(engine, slot, h)
        for v in vio:
            if vkey(v) == want:
                return v
        return None

    cur = c14.normalize(history)
    v0 = fails(cur)
    if v0 is None:
        return history, target, spent[0]
    best_v = v0
    # cut everything after the failing op
    cut = {**cur, "ops": cur["ops"][: best_v["i"] + 1]}
    v = fails(cut)
    if v is not None:
        cur, best_v = c14.normalize(cut), v
    n = 2
    while len(cur["ops"]) >= 2 and spent[0] < budget:
        ops = cur["ops"]
        size = max(1, len(ops) // n)
        reduced = False
        for start in range(0, len(ops), size):
            cand = {**cur, "ops": ops[:start] + ops[start + size :]}
            cand = c14.normalize(cand)
            if len(cand["ops"]) == len(ops) or not cand["ops"]:
                continue
            v = fails(cand)
            if v is not None:
                cur, best_v = cand, v
                n = max(n - 1, 2)
                reduced = True
                break
        if not reduced:
            if size == 1:
                break
            n = min(len(ops), n * 2)
    # per-op simplification
    for idx in range(len(cur["ops"])):
        op = cur["ops"][idx]
        for simp in _simplifications(op):
            cand = copy.deepcopy(cur)
            cand["ops"][idx] = simp
            v = fails(cand)
            if v is not None:
                cur, best_v = c14.normalize(cand), v
                op = simp
    if cur["env"].get("rglob_seed") is not None:
        cand = {**cur, "env": {**cur["env"], "rglob_seed": None}}
        v = fails(cand)
        if v is not None:
            cur, best_v = cand, v
    for pk, pr in list(cur["pops"].items()):
        for mr in (1, 2, 3):
            if pr.get("max_rows", 0) > mr:
                cand = copy.deepcopy(cur)
                cand["pops"][pk]["max_rows"] = mr
                v = fails(cand)
                if v is not None:
                    cur, best_v = cand, v
                    break
    used = {o.get("pop") for o in cur["ops"] if o.get("pop")} | {o["compute"]["pop"] for o in cur["ops"] if o.get("compute")}
    grew = True
    while grew:  # bases of derived populations stay
        grew = False
        for k in list(used):
            b = cur["pops"].get(k, {}).get("derive")
            if isinstance(b, str) and b not in used:
                used.add(b)
                grew = True
    cur["pops"] = {k: v for k, v in cur["pops"].items() if k in used}
    return cur, best_v, spent[0]


def _simplifications(op):
    out = []
    if "abort" in op:
        out.append({k: v for k, v in op.items() if k != "abort"})
    if "iofault" in op:
        out.append({k: v for k, v in op.items() if k != "iofault"})
    if "listfault" in op:
        out.append({k: v for k, v in op.items() if k != "listfault"})
    if op.get("um_fail"):
        out.append({k: v for k, v in op.items() if k != "um_fail"})
    if op.get("agg"):
        out.append({k: v for k, v in op.items() if k != "agg"})
    if op["op"] == "COMPUTE":
        if op.get("targets") != "default":
            out.append({**op, "targets": "default"})
        if op.get("form") != "frame":
            out.append({**op, "form": "frame"})
        if op.get("debug"):
            out.append({**op, "debug": False})
        if op.get("cms") != "ignore":
            out.append({**op, "cms": "ignore"})
        if not op.get("rounding"):
            out.append({**op, "rounding": True})
    if op["op"] == "REWRITE" and op.get("which") == "all":
        out.append({**op, "kind": "source"})
    return out


# ------------------------------------------------------------------ replay (cold interpreters)


def replay_history(history: dict, hashseed=777, hashseed_ref=None) -> list:
    """Execute a history with every process brand new.  Returns the violations.
    The hash seeds of the session and of the reference processes are part of the case
    (a result that depends on PYTHONHASHSEED only shows for particular pairs of seeds)."""
    from sim.zygote import cold_call

    hashseed_ref = hashseed + 1 if hashseed_ref is None else hashseed_ref
    sess = cold_call("sim.c14", "run_session", history, hashseed=hashseed)
    violations = []
    for ev in sess["events"]:
        for key in ev.get("purity") or []:
            violations.append({"invariant": "I1", "i": ev["i"], "op": ev["op"], "what": key})
        if ev.get("ref") is None:
            continue
        ro = cold_call("sim.c14", "run_reference", ev["ref"], hashseed=hashseed_ref)
        diff = same_outcome(ev["outcome"], ro)
        if diff is not None:
            violations.append({"invariant": "I2", "i": ev["i"], "op": ev["op"], "what": diff, "session": _brief(ev["outcome"], ev), "reference": _brief(ro, ro)})
    return violations


def replay_file(path: str) -> int:
    data = json.loads(open(path).read())
    if data.get("kind") == "fresh_pair":
        from sim.zygote import cold_call

        a = cold_call("sim.c14", "run_reference", data["reference"], hashseed=data["hashseeds"]["a"])
        b = cold_call("sim.c14", "run_reference", data["reference"], hashseed=data["hashseeds"]["b"])
        diff = same_outcome(a, b)
        if diff is not None:
            print(f"VIOLATION property={PROP} replay={path}")
            print("  " + jdump({"invariant": "I3", "what": diff, "hashseeds": data["hashseeds"]}))
            return EXIT_VIOLATION
        print(f"replay of {path}: both fresh processes agree")
        return EXIT_OK
    hs = data.get("hashseeds") or {}
    vio = replay_history(data["history"], hashseed=hs.get("session", 777), hashseed_ref=hs.get("reference"))
    want = data.get("violation_key")
    hit = [v for v in vio if want is None or vkey(v) == want]
    if hit:
        print(f"VIOLATION property={PROP} replay={path}")
        print("  " + jdump(hit[0]))
        return EXIT_VIOLATION
    print(f"replay of {path}: no violation reproduced (violations seen: {len(vio)})")
    return EXIT_OK


# ------------------------------------------------------------------ the check


def run_check(tier: str, seed: int, runs: int | None = None, parallel: int | None = None) -> int:
    t0 = time.monotonic()
    T = dict(TIERS[tier])
    if runs:
        T["runs"] = runs
    cfg = {"dates": date_pool(REPO_SRC), "max_ops": T["max_ops"], "faults": True}
    engine = Engine(seed, parallel)
    open_known, _fixed = load_known(PROP)
    stats = {
        "histories": 0, "ops": {}, "compared": 0, "faults_armed": {}, "faults_fired": {}, "bigrams": set(), "fingerprints": set(),
        "line_events": 0, "rglob_permuted": 0, "nontrivial": set(), "status": {}, "exc_both": 0, "dates": set(), "styles": {},
    }
    samples = []
    found = []  # (i, history, violation)
    known_lines = []

    def one(slot, i):
        run_seed = H(seed, PROP, i)
        history = c14.gen_history(run_seed, cfg)
        sess, vio, compared = evaluate(engine, slot, history)
        return {"history": history, "sess": sess, "vio": vio, "compared": compared, "log_digest": digest([history, _strip(sess)])}

    try:
        # known findings first: each open finding's replay must still fail
        for f in open_known:
            rp = f.get("replay")
            if rp:
                data = json.loads((VERIF / rp).read_text())
                hs = data.get("hashseeds") or {}
                vio = replay_history(data["history"], hashseed=hs.get("session", 777), hashseed_ref=hs.get("reference"))
                if any(match_known([f], {**vkey(v), "what": v["what"]}) for v in vio):
                    known_lines.append(f"KNOWN-FINDING: property={PROP} {f['what']}")
                else:
                    log(f"note: known finding {f.get('id')} no longer reproduces")

        results = engine.map_runs(one, range(T["runs"]), progress=max(16, T["runs"] // 10))
        dump_digests(PROP, results)
        for i in sorted(results):
            r = results[i]
            _account(stats, r, i)
            if len(samples) < 3 and r["compared"] >= 2:
                samples.append(_sample(i, r))
            for v in r["vio"]:
                found.append((i, r["history"], v))

        # determinism self-test: same run index twice, on another slot's zygotes
        st_idx = sorted(random.Random(H(seed, PROP, "selftest")).sample(range(T["runs"]), min(T["selftest"], T["runs"])))
        engine_memo, engine.memo = engine.memo, {}
        def again(slot, j):
            i = st_idx[j]
            other = engine.slots[i % len(engine.slots)]  # same slot => same hash seed; fresh children
            h = c14.gen_history(H(seed, PROP, i), cfg)
            sess, vio, compared = evaluate(engine, other, h, use_memo=False)
            return digest([h, _strip(sess)])
        second = engine.map_runs(again, range(len(st_idx)))
        engine.memo = engine_memo
        mism = [st_idx[j] for j in second if second[j] != results[st_idx[j]]["log_digest"]]
        if mism:
            raise HarnessError(f"determinism self-test failed for run indices {mism}")

        # cold references: zygote child == brand-new interpreter
        cold_ok = 0
        fresh_pair_findings = []
        keys = sorted(engine.memo)
        pick = random.Random(H(seed, PROP, "cold")).sample(keys, min(T["cold_refs"], len(keys)))
        for key in pick:
            recipe = _recipe_from_key(engine, key, results)
            if recipe is None:
                continue
            co = engine.cold("sim.c14", "run_reference", recipe)
            diff = same_outcome(co, engine.memo[key])
            if diff is not None:
                # Either the zygote shortcut is wrong (harness) or the same call gives different
                # results in two fresh processes that differ only in PYTHONHASHSEED (a violation of
                # C14's determinism clause).  Decide by three cold pairs with exactly those seeds.
                r_seed = engine.slots[0].R.hashseed
                pairs = []
                for _ in range(3):
                    a = engine.cold("sim.c14", "run_reference", recipe, hashseed=r_seed)
                    b = engine.cold("sim.c14", "run_reference", recipe, hashseed=engine.cold_seed)
                    pairs.append((same_outcome(a, engine.memo[key]) is None, same_outcome(b, co) is None, same_outcome(a, b)))
                if all(x and y and d is not None for x, y, d in pairs):
                    fresh_pair_findings.append({"recipe": recipe, "hashseeds": [r_seed, engine.cold_seed], "what": diff})
                    continue
                raise HarnessError(f"cold reference differs from zygote reference and the difference is not a stable function of the hash seeds: {key[:200]} {pairs}")
            cold_ok += 1

        # violations: minimise, classify against known findings, report
        exit_code = EXIT_OK
        reported = set()
        new_violation_lines = []
        unreproduced = []
        for i, history, v in found:
            k = jdump(vkey(v))
            if k in reported:
                continue
            reported.add(k)
            slot = engine.slots[i % len(engine.slots)]
            small, v2, spent = minimise(engine, slot, history, v)
            key = {**vkey(v2), "what": v2["what"]}
            kf = match_known(open_known, key)
            if kf is not None:
                line = f"KNOWN-FINDING: property={PROP} {kf['what']}"
                if line not in known_lines:
                    known_lines.append(line)
                continue
            # confirm in cold interpreters (three times, identical)
            confirms = []
            for t in range(3):
                vio = replay_history(small, hashseed=slot.S.hashseed, hashseed_ref=slot.R.hashseed)
                confirms.append(sorted(jdump(vkey(x)) for x in vio if vkey(x) == vkey(v2)))
            if not all(confirms) or any(c != confirms[0] for c in confirms):
                unreproduced.append(f"run {i}: {jdump(v2)[:300]} / {confirms}")
                continue
            tag = f"{i}-{len(new_violation_lines)}"
            path = write_replay(PROP, seed, tag, {"hashseeds": {"session": slot.S.hashseed, "reference": slot.R.hashseed}, "history": small, "violation": v2, "violation_key": vkey(v2), "original_ops": len(history["ops"]), "minimised_ops": len(small["ops"]), "shrink_candidates": spent, "replay_cmd": f"./check replay replays/{PROP}-{seed}-{tag}.json"})
            new_violation_lines.append(f"VIOLATION property={PROP} replay={path}")
            log(f"  violation: {jdump(v2)}")
            exit_code = EXIT_VIOLATION
        for k, fp in enumerate(fresh_pair_findings[:3]):
            key = {"invariant": "I3", "op": fp["recipe"]["kind"], "what_class": _what_class(fp["what"]), "what": fp["what"]}
            kf = match_known(open_known, key)
            if kf is not None:
                line = f"KNOWN-FINDING: property={PROP} {kf['what']}"
                if line not in known_lines:
                    known_lines.append(line)
                continue
            tag = f"fresh-{k}"
            path = write_replay(PROP, seed, tag, {"kind": "fresh_pair", "reference": fp["recipe"], "hashseeds": {"a": fp["hashseeds"][0], "b": fp["hashseeds"][1]}, "violation": {"invariant": "I3", "what": fp["what"], "text": "the same call in two fresh processes that differ only in PYTHONHASHSEED gives different results"}, "violation_key": {k2: v for k2, v in key.items() if k2 != "what"}, "replay_cmd": f"./check replay replays/{PROP}-{seed}-{tag}.json"})
            new_violation_lines.append(f"VIOLATION property={PROP} replay={path}")
            log(f"  violation: fresh-process nondeterminism ({fp['what']}) for hash seeds {fp['hashseeds']}")
            exit_code = EXIT_VIOLATION
        from sim.c01_driver import _unreproduced_verdict

        _unreproduced_verdict(unreproduced, new_violation_lines)
    finally:
        engine.close()

    wall = time.monotonic() - t0
    n_nontrivial = len(stats["nontrivial"])
    coverage = {
        "evaluations": sum(stats["ops"].values()),
        "distinct_nontrivial": n_nontrivial,
        "rule": "histories are generated from H(VERIF_SEED,'C14',i); evaluations = ops executed inside sessions; a history is non-trivial if at least one "
        "call was compared with its pristine-process twin after at least one earlier library call in the same process; distinct = distinct "
        "(op-kind sequence, fired-fault signature) among those",
        "samples": samples,
        "exhaustive": False,
        "histories": stats["histories"],
        "histories_per_hour": round(stats["histories"] / wall * 3600),
        "ops_by_kind": dict(sorted(stats["ops"].items())),
        "ops_per_hour": round(sum(stats["ops"].values()) / wall * 3600),
        "op_status": dict(sorted(stats["status"].items())),
        "calls_compared_with_pristine_twin": stats["compared"],
        "reference_calls_executed": engine.memo_misses,
        "reference_memo_hits": engine.memo_hits,
        "cold_reference_agreements": cold_ok,
        "faults_armed_by_kind": dict(sorted(stats["faults_armed"].items())),
        "faults_fired_by_kind": dict(sorted(stats["faults_fired"].items())),
        "rglob_order_permuted_histories": stats["rglob_permuted"],
        "distinct_op_bigrams": len(stats["bigrams"]),
        "distinct_global_state_fingerprints": len(stats["fingerprints"]),
        "line_events_under_tracer": stats["line_events"],
        "simulated_time": "none: no code under test reads a clock; logical steps are ops and tracer line events",
        "policy_dates_drawn": len(stats["dates"]),
        "policy_date_span": [min(stats["dates"]), max(stats["dates"])] if stats["dates"] else [],
        "history_styles": dict(sorted(stats["styles"].items())),
        "selftest_runs_repeated": len(st_idx),
        "parallel": engine.parallel,
        "slots": len(engine.slots),
        "components": COMPONENTS,
        "repo_tree": engine.tree,
        "known_findings_reported": known_lines,
    }
    write_evidence(PROP, tier, seed, "exploration", coverage,
                   ["a forked child of a zygote that imported gettsim and called nothing is equivalent to a fresh process (validated by cold references)",
                    "exception messages and warnings are not compared (DESIGN 2.6)",
                    "I/O-faulted and aborted calls have no expected result; they exist to leave residue"],
                   wall, len(new_violation_lines))
    for line in known_lines:
        print(line)
    for line in new_violation_lines:
        print(line)
    print(f"C14 {tier}: {stats['histories']} histories, {sum(stats['ops'].values())} ops, {stats['compared']} compared calls, {len(new_violation_lines)} violations, {wall:.0f}s")
    return exit_code


def _strip(sess):
    return {"events": sess["events"], "line_events": sess["line_events"], "fps": sess["fingerprints"]}


def _recipe_from_key(engine, key, results):
    return engine.memo_refs.get(key)


def _account(stats, r, i):
    stats["histories"] += 1
    h, sess = r["history"], r["sess"]
    kinds = []
    fired_sig = []
    stats["styles"][h["env"].get("style")] = stats["styles"].get(h["env"].get("style"), 0) + 1
    if h["env"].get("rglob_seed") is not None and sess.get("rglob_calls"):
        stats["rglob_permuted"] += 1
    lib_before = False
    nontrivial = False
    for op, ev in zip(h["ops"], sess["events"]):
        k = op["op"]
        kinds.append(k)
        stats["ops"][k] = stats["ops"].get(k, 0) + 1
        stats["status"][ev["status"]] = stats["status"].get(ev["status"], 0) + 1
        if "date" in op:
            stats["dates"].add(op["date"])
        sw = (ev.get("faults") or {}).get("abort_sweep")
        if sw:
            nm = "abort_sweep_" + sw["what"]
            stats["faults_armed"][nm] = stats["faults_armed"].get(nm, 0) + sw["armed"]
            stats["faults_fired"][nm] = stats["faults_fired"].get(nm, 0) + sw["fired"]
            stats["line_events"] += sw["lines_executed"]
            if sw["fired"]:
                fired_sig.append(f"{len(kinds) - 1}:{nm}")
        for fk in ("abort", "iofault", "listfault"):
            if fk in op:
                name = fk if fk == "abort" else "read_" + op["iofault"]["kind"] if fk == "iofault" else op["listfault"]["kind"]
                stats["faults_armed"][name] = stats["faults_armed"].get(name, 0) + 1
                f = (ev.get("faults") or {}).get(fk) or {}
                if fk == "abort":
                    stats["line_events"] += f.get("lines") or 0
                if f.get("fired"):
                    stats["faults_fired"][name] = stats["faults_fired"].get(name, 0) + 1
                    fired_sig.append(f"{len(kinds) - 1}:{name}")
        if k == "BADDATA":
            stats["faults_armed"]["bad_data"] = stats["faults_armed"].get("bad_data", 0) + 1
            if (ev.get("outcome") or {}).get("kind") == "exc":
                stats["faults_fired"]["bad_data"] = stats["faults_fired"].get("bad_data", 0) + 1
                fired_sig.append(f"{len(kinds) - 1}:bad_data")
        if ev.get("ref") is not None and lib_before:
            nontrivial = True
        if k in LIB_OPS and ev["status"] != "skipped":
            lib_before = True
        if "fp" in ev:
            stats["fingerprints"].add(ev["fp"])
    for a, b in zip(kinds, kinds[1:]):
        stats["bigrams"].add((a, b))
    stats["compared"] += r["compared"]
    if nontrivial:
        stats["nontrivial"].add((tuple(kinds), tuple(fired_sig)))


def _sample(i, r):
    ops = []
    for op, ev in zip(r["history"]["ops"], r["sess"]["events"]):
        o = {k: v for k, v in op.items()}
        o["_status"] = ev["status"]
        if "outcome" in ev:
            oc = ev["outcome"]
            o["_outcome"] = oc.get("cls") if oc.get("kind") == "exc" else oc.get("kind")
        if "faults" in ev:
            o["_faults"] = ev["faults"]
        if ev.get("ref") is not None:
            o["_equal_to_pristine_twin"] = not any(v["i"] == ev["i"] and v["invariant"] == "I2" for v in r["vio"])
        ops.append(o)
    return {"run_index": i, "env": r["history"]["env"], "pops": r["history"]["pops"], "ops": ops}
