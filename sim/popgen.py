"""Population generator (DESIGN section 3).  Pure data in, pure data out.

A population is ``{"cols": {column: [values]}, "clusters": [[p_id, ...], ...], "year": int}``.
Clusters are closed under ``hh_id`` and under every ``p_id_*`` pointer column.  The
column set and the types are read from ``gettsim.config.TYPES_INPUT_VARIABLES`` at run
time, so a new documented input column is picked up automatically (with a type default).
Only constants are read from GETTSIM here; the API is never called.
"""
from __future__ import annotations

import random

DYADIC = 0.25

# fixed "statutory-looking" amounts (monthly euros); extended with values read from the
# parameters of the date by callers that have a params dict at hand
STAT_FIXED = [100.0, 165.0, 219.0, 250.0, 325.0, 400.0, 450.0, 520.0, 538.0, 850.0, 1000.0, 1300.0, 1600.0, 2000.0, 4687.5, 4987.5, 5362.5, 6900.0, 7100.0, 7300.0]
LARGE = [12000.0, 25000.0, 100000.0, 1000000.0]

INT_DOMAINS = {
    "steuerklasse": [1, 2, 3, 4, 5, 6],
    "monat_renteneintr": list(range(1, 13)),
    "behinderungsgrad": [0, 0, 20, 30, 50, 80, 100],
    "monate_elterngeldbezug": [0, 0, 1, 6, 12, 14],
    "grundr_zeiten": [0, 100, 395, 396, 420, 480],
    "grundr_bew_zeiten": [0, 100, 395, 400, 480],
}

HH_LEVEL_EXTRA = ["mietstufe", "wohnort_ost"]  # person-level columns kept constant per household

SKIP_RANDOM = {
    "hh_id", "p_id", "alter", "geburtsjahr", "geburtsmonat", "geburtstag", "kind", "rentner",
    "gemeinsam_veranlagt", "jahr_renteneintr", "alleinerz", "eigenbedarf_gedeckt", "mietstufe", "wohnort_ost",
    "immobilie_baujahr_hh", "bewohnt_eigentum_hh", "weiblich", "in_ausbildung", "betreuungskost_m",
    "elterngeld_zu_verst_eink_vorjahr_y_sn",
}


def input_types() -> dict:
    from gettsim import config

    return dict(config.TYPES_INPUT_VARIABLES)


def pointer_cols(types=None) -> list:
    types = types or input_types()
    return [c for c in types if c.startswith("p_id_")]


def type_default(t):
    if t is bool:
        return False
    if t is int:
        return 0
    return 0.0


class Builder:
    def __init__(self, rng: random.Random, year: int, types: dict, date_ym=(1, 1)):
        self.rng = rng
        self.year = year
        self.types = types
        self.rows = []
        self.hh_vals = []
        self.ptr = pointer_cols(types)
        self.clusters = []
        self._cur = None

    # ------------------------------------------------------------ structure
    def begin_cluster(self):
        self._cur = []
        self.clusters.append(self._cur)

    def new_hh(self) -> int:
        r = self.rng
        self.hh_vals.append(
            {
                "bruttokaltmiete_m_hh": r.choice([0.0, 300.0, 450.25, 612.5, 700.0, 950.75, 1500.0, 2400.0]),
                "heizkosten_m_hh": r.choice([0.0, 40.0, 62.5, 90.0, 130.25, 300.0]),
                "wohnfläche_hh": r.choice([20.0, 45.0, 60.5, 85.0, 110.0, 180.0]),
                "bewohnt_eigentum_hh": r.random() < 0.25,
                "immobilie_baujahr_hh": r.choice([0, 1950, 1965, 1990, 2001, 2015]),
                "mietstufe": r.choice([1, 2, 3, 4, 5, 6, 7] if self.year >= 2020 else [1, 2, 3, 4, 5, 6]),
                "wohnort_ost": r.random() < 0.3,
            }
        )
        return len(self.hh_vals) - 1

    def person(self, hh: int, alter: int, **kw) -> int:
        r = self.rng
        d = {c: type_default(t) for c, t in self.types.items()}
        for c in self.ptr:
            d[c] = -1
        pid = len(self.rows)
        d.update(
            p_id=pid,
            hh_id=hh,
            alter=alter,
            geburtsjahr=self.year - alter,
            geburtsmonat=r.randint(1, 12),
            geburtstag=r.randint(1, 28),
            kind=alter < 18,
            weiblich=r.random() < 0.5,
            jahr_renteneintr=self.year - alter + r.choice([63, 65, 66, 67]),
            monat_renteneintr=r.randint(1, 12),
            steuerklasse=1,
        )
        for c, v in kw.items():
            if c in d:
                d[c] = v
        self.rows.append(d)
        self._cur.append(pid)
        return pid

    def partners(self, a: int, b: int, married: bool, joint: bool = True):
        ra, rb = self.rows[a], self.rows[b]
        ra["p_id_einstandspartner"], rb["p_id_einstandspartner"] = b, a
        if married:
            ra["p_id_ehepartner"], rb["p_id_ehepartner"] = b, a
            ra["gemeinsam_veranlagt"] = rb["gemeinsam_veranlagt"] = joint
            if joint:
                k = self.rng.choice([(3, 5), (4, 4), (5, 3)])
                ra["steuerklasse"], rb["steuerklasse"] = k
            else:
                ra["steuerklasse"] = rb["steuerklasse"] = 4

    def married_apart(self, a: int, b: int, joint: bool):
        ra, rb = self.rows[a], self.rows[b]
        ra["p_id_ehepartner"], rb["p_id_ehepartner"] = b, a
        ra["gemeinsam_veranlagt"] = rb["gemeinsam_veranlagt"] = joint

    def adult(self, hh: int, lo=25, hi=62, **kw) -> int:
        return self.person(hh, self.rng.randint(lo, hi), **kw)

    def pensioner(self, hh: int, **kw) -> int:
        a = self.rng.randint(64, 92)
        p = self.person(hh, a, rentner=True, **kw)
        self.rows[p]["jahr_renteneintr"] = self.year - self.rng.randint(0, min(20, a - 60))
        return p

    def child(self, hh: int, p1: int = -1, p2: int = -1, lo=0, hi=17, kg=None, **kw) -> int:
        r = self.rng
        age = r.randint(lo, hi)
        c = self.person(hh, age, **kw)
        row = self.rows[c]
        row["p_id_elternteil_1"], row["p_id_elternteil_2"] = p1, p2
        parents = [p for p in (p1, p2) if p >= 0]
        if kg is None:
            kg = r.choice(parents) if parents and r.random() < 0.85 else -1
        row["p_id_kindergeld_empf"] = kg
        if parents and r.random() < 0.25:
            row["p_id_erziehgeld_empf"] = r.choice(parents)
        if parents and age < 14 and r.random() < 0.3:
            row["p_id_betreuungsk_träger"] = r.choice(parents)
            row["betreuungskost_m"] = r.choice([50.0, 120.25, 200.0, 450.5])
        if 15 <= age <= 24:
            row["in_ausbildung"] = r.random() < 0.6
            # children under 25 who cover their own needs split off into their own
            # Bedarfsgemeinschaft (counter per family) - make several per family likely
            if r.random() < 0.35:
                row["eigenbedarf_gedeckt"] = True
        if age >= 18:
            row["kind"] = bool(row["in_ausbildung"]) and r.random() < 0.7
        for p in parents:
            if r.random() < 0.9:
                self.rows[p]["ges_pflegev_hat_kinder"] = True
        return c

    # ------------------------------------------------------------ templates
    def t_single(self):
        self.adult(self.new_hh(), 18, 66)

    def t_couple(self):
        hh = self.new_hh()
        a, b = self.adult(hh), self.adult(hh)
        m = self.rng.random() < 0.65
        self.partners(a, b, m, self.rng.random() < 0.8)

    def t_single_parent(self):
        hh = self.new_hh()
        a = self.adult(hh, 20, 55, alleinerz=True, steuerklasse=2)
        for _ in range(self.rng.randint(1, 3)):
            self.child(hh, a, -1, 0, self.rng.choice([17, 17, 24]))

    def t_family(self):
        hh = self.new_hh()
        a, b = self.adult(hh, 22, 58), self.adult(hh, 22, 58)
        self.partners(a, b, self.rng.random() < 0.75, self.rng.random() < 0.85)
        for _ in range(self.rng.randint(1, 4)):
            p1, p2 = (a, b) if self.rng.random() < 0.5 else (b, a)
            self.child(hh, p1, p2, 0, self.rng.choice([17, 17, 24]))

    def t_large_family(self):
        hh = self.new_hh()
        a, b = self.adult(hh, 30, 58), self.adult(hh, 30, 58)
        self.partners(a, b, self.rng.random() < 0.8, True)
        kg = self.rng.choice([a, b])
        for _ in range(self.rng.randint(5, 7)):
            self.child(hh, a, b, 0, self.rng.choice([17, 17, 24]), kg=kg if self.rng.random() < 0.9 else None)

    def t_patchwork(self):
        hh = self.new_hh()
        a, b = self.adult(hh, 28, 55), self.adult(hh, 28, 55)
        self.partners(a, b, self.rng.random() < 0.4, True)
        ex = -1
        if self.rng.random() < 0.4:  # other parent of a's child lives elsewhere in the cluster
            ex = self.adult(self.new_hh(), 28, 55)
        self.child(hh, a, ex, 3, 17)
        if self.rng.random() < 0.8:
            self.child(hh, b, -1, 3, 20)
        if self.rng.random() < 0.7:
            self.child(hh, a, b, 0, 6)

    def t_child_with_partner(self):
        hh = self.new_hh()
        a = self.adult(hh, 40, 60)
        if self.rng.random() < 0.7:
            b = self.adult(hh, 40, 60)
            self.partners(a, b, True, True)
        else:
            b = -1
            self.rows[a]["alleinerz"] = True
        c = self.child(hh, a, b, 18, 24)
        d = self.person(hh, self.rng.randint(18, 26))
        self.partners(c, d, self.rng.random() < 0.5, True)
        if self.rng.random() < 0.4:
            self.child(hh, a, b, 5, 17)

    def t_three_generations(self):
        hh = self.new_hh()
        g1 = self.adult(hh, 50, 63) if self.rng.random() < 0.6 else self.pensioner(hh)
        g2 = -1
        if self.rng.random() < 0.5:
            g2 = self.adult(hh, 50, 63)
            self.partners(g1, g2, True, True)
        young = self.rng.random() < 0.6
        p = self.child(hh, g1, g2, 16 if young else 25, 24 if young else 40)
        self.rows[p]["alleinerz"] = True
        self.child(hh, p, -1, 0, 5 if young else 12)

    def t_adult_child(self):
        hh = self.new_hh()
        a = self.adult(hh, 45, 63)
        b = -1
        if self.rng.random() < 0.6:
            b = self.adult(hh, 45, 63)
            self.partners(a, b, True, self.rng.random() < 0.8)
        lo, hi = self.rng.choice([(18, 24), (18, 24), (25, 35)])
        c = self.child(hh, a, b, lo, hi)
        if self.rng.random() < 0.6:
            self.rows[c]["eigenbedarf_gedeckt"] = True
        if self.rng.random() < 0.4:
            c2 = self.child(hh, a, b, 10, 24)
            if self.rng.random() < 0.4:
                self.rows[c2]["eigenbedarf_gedeckt"] = True

    def t_pensioners(self):
        hh = self.new_hh()
        a = self.pensioner(hh)
        if self.rng.random() < 0.7:
            b = self.pensioner(hh) if self.rng.random() < 0.7 else self.adult(hh, 55, 63)
            self.partners(a, b, self.rng.random() < 0.8, True)

    def t_coparents_not_partners(self):
        # NOT part of TEMPLATES: two parents of a common child who live in one household
        # without being partners are *invalid* input for GETTSIM's maintainers (fixture
        # groupings/2023/skip_eltern_nicht_einstandspflichtig_ein_haushalt.yaml expects an
        # error: "Eltern im selben Haushalt, aber nicht füreinander einstandspflichtig").
        hh = self.new_hh()
        a, b = self.adult(hh, 25, 50), self.adult(hh, 25, 50)
        for _ in range(self.rng.randint(1, 2)):
            self.child(hh, a, b, 0, 17)

    def t_parent_elsewhere(self):
        hh1, hh2 = self.new_hh(), self.new_hh()
        m = self.adult(hh1, 22, 50, alleinerz=True, steuerklasse=2)
        f = self.adult(hh2, 22, 55)
        for _ in range(self.rng.randint(1, 2)):
            kg = self.rng.choice([m, f, m])
            self.child(hh1, m, f, 0, 17, kg=kg)
        if self.rng.random() < 0.4:  # new partner of the father
            n = self.adult(hh2, 22, 55)
            self.partners(f, n, self.rng.random() < 0.5, True)

    def t_married_apart(self):
        a = self.adult(self.new_hh())
        b = self.adult(self.new_hh())
        self.married_apart(a, b, self.rng.random() < 0.5)

    TEMPLATES = [
        "t_single", "t_couple", "t_single_parent", "t_family", "t_patchwork", "t_child_with_partner",
        "t_three_generations", "t_adult_child", "t_pensioners",
        "t_parent_elsewhere", "t_married_apart", "t_large_family",
    ]


def _draw_amount(r: random.Random, stat, mix):
    u = r.random()
    if u < mix["zero"]:
        return 0.0
    if u < mix["zero"] + mix["stat"] and stat:
        return max(0.0, r.choice(stat) + r.choice([-DYADIC, 0.0, 0.0, DYADIC]))
    if u < mix["zero"] + mix["stat"] + mix["large"]:
        return r.choice(LARGE)
    return DYADIC * r.randint(1, int(mix["max"] / DYADIC))


def generate(seed: int, year: int, *, min_rows=1, max_rows=14, stat_values=None, n_clusters=None, templates=None, id_mode=None) -> dict:
    """Generate one valid population.  Everything is a function of the arguments."""
    r = random.Random(seed)
    types = input_types()
    b = Builder(r, year, types)
    stat = sorted(set(STAT_FIXED + [float(v) for v in (stat_values or []) if 10 <= float(v) <= 200000]))
    # swarm: each population draws its own template mix and value mix
    tnames = templates or r.sample(Builder.TEMPLATES, r.randint(2, len(Builder.TEMPLATES)))
    mix = {
        "zero": r.choice([0.3, 0.5, 0.7, 0.85]),
        "stat": r.choice([0.05, 0.2, 0.4]),
        "large": r.choice([0.0, 0.02, 0.1]),
        "max": r.choice([800.0, 3000.0, 9000.0]),
    }
    target = r.randint(min_rows, max_rows)
    want_clusters = n_clusters or 99
    guard = 0
    while (len(b.rows) < target and len(b.clusters) < want_clusters) or len(b.clusters) == 0:
        guard += 1
        if guard > 60:
            break
        before_rows, before_hh = len(b.rows), len(b.hh_vals)
        b.begin_cluster()
        getattr(b, r.choice(tnames))()
        if len(b.rows) > max_rows and len(b.clusters) > 1:
            # undo the cluster that overshot
            del b.rows[before_rows:]
            del b.hh_vals[before_hh:]
            b.clusters.pop()
            tnames = ["t_single", "t_couple"]
            if max_rows - len(b.rows) < 1:
                break
            if max_rows - len(b.rows) < 2:
                tnames = ["t_single"]
    rows = b.rows

    float_cols = [c for c, t in types.items() if t is float and c not in SKIP_RANDOM and not c.endswith("_hh")]
    int_cols = [c for c, t in types.items() if t is int and c not in SKIP_RANDOM and not c.startswith("p_id") and not c.endswith("_hh")]
    bool_cols = [c for c, t in types.items() if t is bool and c not in SKIP_RANDOM and not c.endswith("_hh")]
    active_f = r.sample(float_cols, min(len(float_cols), r.randint(6, 22)))
    active_i = r.sample(int_cols, min(len(int_cols), r.randint(2, 8)))
    active_b = r.sample(bool_cols, min(len(bool_cols), r.randint(3, 12)))
    always = ["bruttolohn_m", "arbeitsstunden_w"]
    for row in rows:
        adultish = row["alter"] >= 15
        for c in active_f + always:
            if c not in types:
                continue
            if not adultish and c not in ("kind_unterh_anspr_m", "kind_unterh_erhalt_m", "kapitaleink_brutto_m", "vermögen_bedürft", "sonstig_eink_m"):
                continue
            v = _draw_amount(r, stat, mix)
            if c == "arbeitsstunden_w":
                v = r.choice([0.0, 8.0, 15.0, 20.0, 25.5, 30.0, 38.5, 40.0]) if row["bruttolohn_m"] > 0 else 0.0
            elif c in ("entgeltp_ost", "entgeltp_west", "grundr_entgeltp"):
                v = r.choice([0.0, 0.5, 5.25, 10.0, 15.5, 20.25, 30.5, 45.0])
            elif c.startswith("m_") or c == "y_pflichtbeitr_ab_40":
                v = float(r.choice([0, 0, 12, 60, 120, 200, 420, 480]))
            elif c in ("m_durchg_alg1_bezug", "sozialv_pflicht_5j"):
                v = float(r.choice([0, 6, 12, 24, 36, 60]))
            elif c == "eink_vermietung_m":
                v = v * r.choice([1, 1, -1])
            row[c] = v
        for c in active_i:
            dom = INT_DOMAINS.get(c, [0, 0, 1, 2, 5, 12, 40])
            row[c] = r.choice(dom)
        for c in active_b:
            row[c] = r.random() < 0.35
        if row["rentner"] or row["alter"] >= 60:
            for c in ("entgeltp_west", "entgeltp_ost", "grundr_entgeltp"):
                if c in types and r.random() < 0.7:
                    row[c] = r.choice([0.5, 5.25, 10.0, 15.5, 20.25, 30.5, 45.0])
            if r.random() < 0.7:
                row["grundr_zeiten"] = r.choice(INT_DOMAINS["grundr_zeiten"])
                row["grundr_bew_zeiten"] = min(row["grundr_zeiten"], r.choice(INT_DOMAINS["grundr_bew_zeiten"]))
                row["m_pflichtbeitrag"] = float(r.choice([60, 200, 420, 480]))
        if "bruttolohn_vorj_m" in types and r.random() < 0.5:
            row["bruttolohn_vorj_m"] = row["bruttolohn_m"]
    # household-level columns
    for row in rows:
        for c, v in b.hh_vals[row["hh_id"]].items():
            if c in row:
                row[c] = v
    # tax-unit level input: equal for jointly assessed spouses
    c_sn = "elterngeld_zu_verst_eink_vorjahr_y_sn"
    if c_sn in types:
        for row in rows:
            row[c_sn] = _draw_amount(r, stat, mix) * 12 if r.random() < 0.3 else 0.0
        for row in rows:
            sp = row["p_id_ehepartner"]
            if sp >= 0 and row["gemeinsam_veranlagt"] and sp > row["p_id"]:
                rows[sp][c_sn] = row[c_sn]

    # identifier labelling of the canonical table
    id_mode = id_mode or r.choice(["dense", "dense", "offset", "sparse_sorted", "sparse_shuffled"])
    n = len(rows)
    n_hh = len(b.hh_vals)
    if id_mode == "dense":
        pmap = list(range(n))
        hmap = list(range(n_hh))
    elif id_mode == "offset":  # consecutive, but not starting at 0
        p0, h0 = r.randint(1, 300), r.randint(1, 40)
        pmap = list(range(p0, p0 + n))
        hmap = list(range(h0, h0 + n_hh))
    else:
        pmap = sorted(r.sample(range(0, 40 * n + 50), n))
        hmap = sorted(r.sample(range(0, 12 * n_hh + 20), n_hh))
        if id_mode == "sparse_shuffled":
            r.shuffle(pmap)
            r.shuffle(hmap)
    cols = {c: [] for c in types}
    ptr = b.ptr
    for row in rows:
        for c in types:
            v = row[c]
            if c == "p_id":
                v = pmap[v]
            elif c == "hh_id":
                v = hmap[v]
            elif c in ptr:
                v = pmap[v] if v >= 0 else -1
            cols[c].append(v)
    clusters = [[pmap[p] for p in cl] for cl in b.clusters if cl]
    return {"cols": cols, "clusters": clusters, "year": year, "id_mode": id_mode, "seed": seed}


def generate_crowd(seed: int, year: int, min_total: int, stat_values=None, style: str = "mixed") -> dict:
    """Many independent populations concatenated (>= min_total rows) with disjoint dense ids.
    Exercises size-dependent code paths (fast paths above some table size, counters that
    overflow a digit).  style 'young_adults': mostly families with children under 25 who
    cover their own needs."""
    r = random.Random(seed)
    parts = []
    total = 0
    pbase = hbase = 0
    templates = ["t_adult_child", "t_adult_child", "t_family", "t_large_family", "t_child_with_partner"] if style == "young_adults" else None
    while total < min_total:
        p = generate(r.randrange(1 << 30), year, min_rows=3, max_rows=12, stat_values=stat_values, id_mode="dense", templates=templates)
        n = n_rows(p)
        nh = len(set(p["cols"]["hh_id"]))
        if style == "young_adults":
            c = p["cols"]
            for i in range(n):
                if 15 <= c["alter"][i] <= 24 and (c["p_id_elternteil_1"][i] >= 0 or c["p_id_elternteil_2"][i] >= 0) and r.random() < 0.9:
                    c["eigenbedarf_gedeckt"][i] = True
        p = relabel(p, {i: i + pbase for i in range(n)}, {h: h + hbase for h in range(nh)})
        pbase += n
        hbase += nh
        total += n
        parts.append(p)
    out = parts[0]
    for p in parts[1:]:
        out = concat(out, p)
    out["seed"] = seed
    out["id_mode"] = "crowd"
    return out


def draw_crowd(r: random.Random, sizes) -> tuple:
    """(min_total, style) - swarm over table sizes so that thresholds of any
    size-dependent fast path are crossed in some runs."""
    return r.choice(sizes), r.choice(["mixed", "mixed", "young_adults"])


# ------------------------------------------------------------------ helpers on populations


def n_rows(pop) -> int:
    return len(pop["cols"]["p_id"])


def to_frame(pop_or_cols, order=None, index=None, types=None):
    """Build a DataFrame with the documented dtypes.  ``order`` = list of row positions."""
    import numpy as np
    import pandas as pd

    cols = pop_or_cols["cols"] if "cols" in pop_or_cols else pop_or_cols
    types = types or input_types()
    data = {}
    for c, vals in cols.items():
        t = types.get(c)
        if order is not None:
            vals = [vals[i] for i in order]
        if t is bool:
            data[c] = np.array(vals, dtype=bool)
        elif t is int:
            data[c] = np.array(vals, dtype=np.int64)
        elif t is float:
            data[c] = np.array(vals, dtype=np.float64)
        else:
            data[c] = np.array(vals)
    df = pd.DataFrame(data)
    if index is not None:
        df.index = index
    return df


def subset(pop, p_ids) -> dict:
    keep = set(p_ids)
    pos = [i for i, p in enumerate(pop["cols"]["p_id"]) if p in keep]
    cols = {c: [v[i] for i in pos] for c, v in pop["cols"].items()}
    clusters = [cl for cl in pop["clusters"] if set(cl) <= keep]
    return {**pop, "cols": cols, "clusters": clusters}


def concat(a, b) -> dict:
    cols = {c: list(a["cols"][c]) + list(b["cols"][c]) for c in a["cols"]}
    return {**a, "cols": cols, "clusters": list(a["clusters"]) + list(b["clusters"])}


def relabel(pop, pmap: dict, hmap: dict) -> dict:
    types = input_types()
    ptr = pointer_cols(types)
    cols = {}
    for c, vals in pop["cols"].items():
        if c == "p_id":
            cols[c] = [pmap[v] for v in vals]
        elif c == "hh_id":
            cols[c] = [hmap[v] for v in vals]
        elif c in ptr:
            cols[c] = [pmap[v] if v >= 0 else -1 for v in vals]
        else:
            cols[c] = list(vals)
    return {**pop, "cols": cols, "clusters": [[pmap[p] for p in cl] for cl in pop["clusters"]]}


def check_closed(pop) -> list:
    """Return a list of problems (empty = every cluster closed, pointers valid)."""
    cols = pop["cols"]
    ptr = [c for c in cols if c.startswith("p_id_")]
    pid = cols["p_id"]
    where = {p: k for k, cl in enumerate(pop["clusters"]) for p in cl}
    problems = []
    if sorted(where) != sorted(pid):
        problems.append("clusters do not partition p_id")
    hh_cluster = {}
    for i, p in enumerate(pid):
        k = where.get(p)
        h = cols["hh_id"][i]
        if hh_cluster.setdefault(h, k) != k:
            problems.append(f"hh {h} spans clusters")
        for c in ptr:
            v = cols[c][i]
            if v >= 0 and where.get(v) != k:
                problems.append(f"pointer {c} of {p} leaves its cluster")
            if v == p:
                problems.append(f"self pointer {c} at {p}")
    return problems


def structure_signature(pop) -> str:
    """Label-free signature of the pointer/household structure (for 'distinct' counts)."""
    import hashlib

    cols = pop["cols"]
    pid = cols["p_id"]
    pos = {p: i for i, p in enumerate(pid)}
    nchild = {p: 0 for p in pid}
    for i in range(len(pid)):
        for c in ("p_id_elternteil_1", "p_id_elternteil_2"):
            v = cols[c][i]
            if v in nchild:
                nchild[v] += 1
    sigs = []
    for cl in pop["clusters"]:
        hhs = sorted({cols["hh_id"][pos[p]] for p in cl})
        per = []
        for p in cl:
            i = pos[p]
            a = cols["alter"][i]
            per.append(
                (
                    hhs.index(cols["hh_id"][i]),
                    0 if a < 18 else 1 if a < 25 else 2 if a < 63 else 3,
                    cols["p_id_ehepartner"][i] >= 0,
                    cols["p_id_einstandspartner"][i] >= 0,
                    (cols["p_id_elternteil_1"][i] >= 0) + (cols["p_id_elternteil_2"][i] >= 0),
                    nchild[p],
                    bool(cols["eigenbedarf_gedeckt"][i]),
                    cols["p_id_kindergeld_empf"][i] >= 0,
                )
            )
        sigs.append(tuple(sorted(per)))
    return hashlib.sha256(repr(sorted(sigs)).encode()).hexdigest()[:12]


def varies_over_rows(pop) -> bool:
    for c, vals in pop["cols"].items():
        if c.startswith("p_id") or c == "hh_id":
            continue
        if len(set(vals)) > 1:
            return True
    return False


# ------------------------------------------------------------------ dates


def date_pool(repo_src) -> list:
    """Every date >= 2015-01-01 that is a key in a parameter file or a rule's start/end
    date, the day before each, plus leap days.  Parsed from the files (no API call)."""
    import datetime
    import re
    from pathlib import Path

    root = Path(repo_src) / "_gettsim"
    found = set()
    try:
        for p in sorted((root / "parameters").glob("*.yaml")):
            for m in re.finditer(r"^\s*(\d{4}-\d{2}-\d{2})\s*:", p.read_text(encoding="utf-8"), re.M):
                found.add(m.group(1))
        for p in sorted(root.rglob("*.py")):
            for m in re.finditer(r"(?:start_date|end_date)\s*=\s*\"(\d{4}-\d{2}-\d{2})\"", p.read_text(encoding="utf-8")):
                found.add(m.group(1))
    except OSError:
        found = set()
    out = set()
    lo, hi = datetime.date(2015, 1, 1), datetime.date(2025, 12, 31)
    for s in found:
        try:
            d = datetime.date.fromisoformat(s)
        except ValueError:
            continue
        for dd in (d, d - datetime.timedelta(days=1)):
            if lo <= dd <= hi:
                out.add(dd)
    for y in (2016, 2020, 2024):
        out.add(datetime.date(y, 2, 29))
    if len(out) < 10:  # fallback (pool is workload, not oracle)
        for y in range(2015, 2026):
            out.add(datetime.date(y, 1, 1))
            out.add(datetime.date(y, 7, 1))
    return sorted(d.isoformat() for d in out)


def draw_date(r: random.Random, pool, weight_recent=0.6) -> str:
    import datetime

    u = r.random()
    if u < 0.15:
        y = r.randint(2015, 2025)
        return datetime.date(y, r.randint(1, 12), r.randint(1, 28)).isoformat()
    recent = [d for d in pool if d >= "2020-01-01"]
    if recent and r.random() < weight_recent:
        return r.choice(recent)
    return r.choice(pool)


def stat_values_from_params(params, limit=400) -> list:
    """Scalar numeric leaves of the params of the date (monthly-ish magnitudes)."""
    out = []

    def walk(o, depth=0):
        if len(out) >= limit * 4 or depth > 6:
            return
        if isinstance(o, dict):
            for k, v in o.items():
                if k in ("rounding", "note", "reference"):
                    continue
                walk(v, depth + 1)
        elif isinstance(o, bool):
            return
        elif isinstance(o, (int, float)):
            v = float(o)
            if 10 <= v <= 200000 and v == v:
                out.append(v)
                if v >= 3000:
                    out.append(round(v / 12 / DYADIC) * DYADIC)

    walk(params)
    vals = sorted(set(round(v / DYADIC) * DYADIC for v in out))
    if len(vals) > limit:
        step = len(vals) / limit
        vals = [vals[int(i * step)] for i in range(limit)]
    return vals
