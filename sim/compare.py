"""Result comparison shared by the checks (DESIGN 2.6): graph capture at the dags
boundary, E/C/F classification, partitions, first-divergent frontier, node isolation."""
from __future__ import annotations

import warnings

RTOL = ATOL = 1e-9


# ------------------------------------------------------------------ calling the API


DEFAULT_KW: dict = {}  # set by the C01/C02 children: user aggregation specs passed with every call


def run_call(data, params, functions, targets=None, **kw):
    """Call the public API; return ("frame", df, warnings) or ("exc", class name, text)."""
    from gettsim import compute_taxes_and_transfers

    kw = {**DEFAULT_KW, **kw}

    with warnings.catch_warnings(record=True) as w:
        warnings.simplefilter("always")
        try:
            out = compute_taxes_and_transfers(data=data, params=params, functions=functions, targets=targets, **kw)
        except Exception as e:  # noqa: BLE001
            return ("exc", type(e).__name__, str(e)[:300].replace("\n", " "))
    return ("frame", out, [(type(x.message).__name__, str(x.message)[:4000]) for x in w])


def full_graph(data, params, functions):
    """Graph of the default targets extended by every function of the environment that
    is computable on its own from the documented input columns (Lohnsteuer, Erziehungsgeld
    ... are not among the default targets).  Falls back to the default-target graph."""
    graph, res = capture_graph(data, params, functions)
    if graph is None or res[0] != "frame" or not isinstance(functions, dict):
        return graph, res
    extra = []
    cand = sorted(functions)
    for spec_kind in ("aggregate_by_group_specs", "aggregate_by_p_id_specs"):
        cand += sorted(DEFAULT_KW.get(spec_kind, {}))
    for n in cand:
        if n in graph["parents"]:
            continue
        r = run_call(data, params, functions, targets=[n])
        if r[0] == "frame":
            extra.append(n)
    if not extra:
        return graph, res
    g2, r2 = capture_graph(data, params, functions, targets=sorted(set(graph["order"]) | set(extra)))
    if g2 is None or r2[0] != "frame":
        return graph, res
    g2["extra_targets"] = len(extra)
    return g2, r2


def capture_graph(data, params, functions, targets=None):
    """Run one ordinary default-target call with dags.dag.create_dag wrapped and return
    the executed graph: {"order": topological list of function nodes, "parents": {...},
    "roots": data columns used}.  Returns None if nothing could be captured."""
    import dags.dag
    import networkx as nx

    captured = []
    orig = dags.dag.create_dag

    def wrapped(*a, **kw):
        g = orig(*a, **kw)
        fns = kw.get("functions", a[0] if a else {})
        captured.append((g, set(fns)))
        return g

    dags.dag.create_dag = wrapped
    try:
        res = run_call(data, params, functions, targets=targets)
    finally:
        dags.dag.create_dag = orig
    if not captured:
        return None, res
    g, fns = captured[-1]
    order = [n for n in nx.lexicographical_topological_sort(g) if n in fns]
    parents = {n: sorted(g.predecessors(n)) for n in order}
    roots = sorted(n for n in g.nodes if n not in fns)
    return {"order": order, "parents": parents, "roots": roots}, res


def endogenous_id_nodes() -> set:
    from gettsim import config

    return {f"{g}_id" for g, d in config.SUPPORTED_GROUPINGS.items() if d.get("potentially_endogenous")}


# ------------------------------------------------------------------ classification


def partition(ids, pids) -> frozenset:
    d = {}
    for p, g in zip(pids, ids):
        d.setdefault(g, []).append(p)
    return frozenset(frozenset(v) for v in d.values())


def classify_values(a, b) -> str:
    """a, b: numpy arrays aligned person by person.  E / C / F."""
    import numpy as np

    a = np.asarray(a)
    b = np.asarray(b)
    if a.shape != b.shape:
        return "F"
    if a.dtype == object or b.dtype == object:
        try:
            return "E" if all((x == y) or (x != x and y != y) for x, y in zip(a.tolist(), b.tolist())) else "F"
        except Exception:  # noqa: BLE001
            return "F"
    if a.dtype.kind in "iub" and b.dtype.kind in "iub":
        return "E" if np.array_equal(a.astype(np.int64), b.astype(np.int64)) else "F"
    if a.dtype.kind in "mM" or b.dtype.kind in "mM":
        return "E" if np.array_equal(a, b) else "F"
    x = a.astype(np.float64)
    y = b.astype(np.float64)
    if np.array_equal(x, y, equal_nan=True):
        return "E"
    with np.errstate(invalid="ignore"):
        if np.allclose(x, y, rtol=RTOL, atol=ATOL, equal_nan=True):
            return "C"
    return "F"


def align(frame, pids_in_order, ref_pids):
    """Return {column: array} of `frame` re-ordered so that row k belongs to ref_pids[k].
    Rows are matched positionally to the *input* order (that is what C01/C04 promise)."""
    import numpy as np

    pos = {p: i for i, p in enumerate(pids_in_order)}
    idx = np.array([pos[p] for p in ref_pids], dtype=np.int64)
    out = {}
    for i, c in enumerate(frame.columns):
        out[c] = frame.iloc[:, i].to_numpy()[idx]
    return out


def compare_aligned(graph, a, b, pids, id_nodes, ptr_map=None, foreign=None, strict=False):
    """Compare two aligned result dicts over the persons `pids`.

    ptr_map: relabelling p_id(a-run) -> p_id(b-run) for pointer-valued outputs.
    foreign: for C02 - callable(node, b_ids) -> bool, True if a derived group of the joint
             run mixes focus and bystander persons (checked by the caller, passed as a set
             of node names).
    Returns status per node and the frontier (F nodes all of whose parents are E)."""
    status = {}
    detail = {}
    order = graph["order"] if graph else sorted(set(a) & set(b))
    for n in order:
        if n not in a or n not in b:
            status[n] = "F"
            detail[n] = "column missing in one run"
            continue
        if n in id_nodes:
            same = partition(a[n].tolist(), pids) == partition(b[n].tolist(), pids)
            status[n] = "E" if same else "F"
            if not same:
                detail[n] = {"partition_a": _fmt_partition(a[n], pids), "partition_b": _fmt_partition(b[n], pids)}
            if foreign and n in foreign:
                status[n] = "F"
                detail[n] = {"mixed_group": foreign[n]}
            continue
        av, bv = a[n], b[n]
        if ptr_map is not None and n.startswith("p_id_"):
            av = _map_ptr(av, ptr_map)
        st = classify_values(av, bv)
        status[n] = st
        if st != "E":
            detail[n] = _first_diff(av, bv, pids)
            if str(getattr(av, "dtype", "")) != str(getattr(bv, "dtype", "")):
                detail[n]["dtypes"] = [str(av.dtype), str(bv.dtype)]
    frontier, needs_isolation, downstream = [], [], []
    for n in order:
        if status[n] == "E" or (status[n] == "C" and not strict):
            continue
        par = [p for p in (graph["parents"].get(n, []) if graph else []) if p in status]
        pst = {status[p] for p in par}
        if strict:
            # bit-exact regime (same rows in the same relative order in both runs): the
            # first node that is not bit-equal while all its parents are is the frontier
            if pst & {"F", "C"}:
                downstream.append(n)
            else:
                frontier.append(n)
            continue
        if "F" in pst:
            downstream.append(n)
        elif "C" in pst:
            needs_isolation.append(n)
        else:
            frontier.append(n)
    counts = {k: sum(1 for v in status.values() if v == k) for k in "ECF"}
    return {"status": status, "detail": detail, "frontier": frontier, "needs_isolation": needs_isolation, "downstream": downstream, "counts": counts}


def _map_ptr(arr, m):
    import numpy as np

    return np.array([m.get(int(v), int(v)) if v >= 0 else int(v) for v in arr.tolist()], dtype=np.int64)


def _fmt_partition(ids, pids):
    return sorted(sorted(int(p) for p in g) for g in partition(list(ids), pids))


def _first_diff(a, b, pids):
    import numpy as np

    try:
        x = np.asarray(a).astype(np.float64)
        y = np.asarray(b).astype(np.float64)
        neq = ~((x == y) | (np.isnan(x) & np.isnan(y)))
        k = int(np.argmax(neq)) if neq.any() else 0
        return {"p_id": int(pids[k]), "a": float(x[k]), "b": float(y[k]), "n_rows_differ": int(neq.sum())}
    except Exception:  # noqa: BLE001
        return {"note": "non-numeric difference"}


# ------------------------------------------------------------------ node isolation


def isolate(node, graph, params, functions, canon_vals, input_cols, pids, orders, types, **kw):
    """Recompute `node` alone through the public API in each of the row `orders`, with its
    parents' *canonical* values supplied as data.  Returns ("agree"|"differ"|"unresolved", info).

    canon_vals: {column: array aligned to pids} canonical results; input_cols: {column: list}
    of the population (aligned to pids); orders: list of position lists."""
    import numpy as np
    import pandas as pd

    parents = graph["parents"].get(node, [])
    outs = []
    for order in orders:
        data = {"p_id": np.asarray(input_cols["p_id"], dtype=np.int64)[order]}
        for p in parents:
            if p in canon_vals:
                data[p] = np.asarray(canon_vals[p])[order]
            elif p in input_cols:
                t = types.get(p)
                dt = bool if t is bool else np.int64 if t is int else np.float64 if t is float else None
                data[p] = np.asarray(input_cols[p], dtype=dt)[order]
            else:
                return "unresolved", f"parent {p} unavailable"
        res = run_call(pd.DataFrame(data), params, functions, targets=[node], **kw)
        if res[0] != "frame":
            return "unresolved", f"isolated call raised {res[1]}: {res[2][:120]}"
        inv = np.argsort(np.asarray(order))
        outs.append(res[1][node].to_numpy()[inv])
    base = outs[0]
    is_id = node in endogenous_id_nodes()
    for o in outs[1:]:
        if is_id:
            if partition(base.tolist(), pids) != partition(o.tolist(), pids):
                return "differ", {"partition_a": _fmt_partition(base, pids), "partition_b": _fmt_partition(o, pids)}
        elif classify_values(base, o) == "F":
            return "differ", _first_diff(base, o, pids)
    return "agree", None
