"""C02 - unrelated households do not influence each other; relabelling changes only labels.

Child side.  A case is {"date", "A": cols, "B": cols|None, "merge": "AABAB...", "relabel":
{"p": [[old,new],...], "h": [[old,new],...]}|None, "node"}.  The joint table takes rows
from A and B in the order given by `merge`; A's internal order is always preserved, so a
row-order defect (C01) cannot fire here.
"""
from __future__ import annotations

import random
import warnings

from sim import compare, popgen, userlib

P_RANGE = 1_000_000
H_RANGE = 10_000


# ------------------------------------------------------------------ building tables


def relabel_cols(cols, rel):
    if not rel:
        return cols
    pm = {int(a): int(b) for a, b in rel["p"]}
    hm = {int(a): int(b) for a, b in rel["h"]}
    return popgen.relabel({"cols": cols, "clusters": []}, pm, hm)["cols"]


def joint_cols(case):
    A = relabel_cols(case["A"], case.get("relabel"))
    B = case.get("B")
    merge = case.get("merge") or "A" * len(A["p_id"])
    ia = ib = 0
    out = {c: [] for c in A}
    posA = []
    for k, m in enumerate(merge):
        src, i = (A, ia) if m == "A" else (B, ib)
        for c in out:
            out[c].append(src[c][i])
        if m == "A":
            posA.append(k)
            ia += 1
        else:
            ib += 1
    return out, posA


def merges(nA, nB, r: random.Random, n_random: int, max_first: int) -> list:
    out = [("B_before", "B" * nB + "A" * nA), ("B_after", "A" * nA + "B" * nB)]
    alt = []
    a, b = nA, nB
    while a or b:
        if b:
            alt.append("B")
            b -= 1
        if a:
            alt.append("A")
            a -= 1
    out.append(("alternating", "".join(alt)))
    for _ in range(n_random):
        m = ["A"] * nA + ["B"] * nB
        r.shuffle(m)
        out.append(("random_merge", "".join(m)))
    seen = set()
    res = []
    for fam, m in out:
        if m not in seen:
            seen.add(m)
            res.append((fam, m))
    return res


def rotate_B(B, k):
    return {c: v[k:] + v[:k] for c, v in B.items()}


def make_relabel(A, B, kind: str, r: random.Random):
    pids = list(A["p_id"])
    hhs = sorted(set(A["hh_id"]))
    taken_p = set(B["p_id"]) if B else set()
    taken_h = set(B["hh_id"]) if B else set()
    if kind == "reverse":
        M = max(pids) + r.randint(0, 50)
        pm = {p: M - p for p in pids}
        Hm = max(hhs) + r.randint(0, 5)
        hm = {h: Hm - h for h in hhs}
    elif kind == "shift":
        dp, dh = r.randint(1, 5000), r.randint(1, 300)
        pm = {p: p + dp for p in pids}
        hm = {h: h + dh for h in hhs}
    elif kind == "huge":  # person ids far beyond 2**53 (household ids stay small: group-id arithmetic allocates by magnitude)
        k = r.choice([31, 40, 53, 54, 60, 62])
        base = 2**k - r.randint(0, 3)
        step = r.choice([1, 1, 2, 7])
        order = sorted(pids)
        pm = {p: base + step * i for i, p in enumerate(order)}
        hm = {h: h for h in hhs} if r.random() < 0.5 else dict(zip(hhs, r.sample(range(H_RANGE), len(hhs))))
    elif kind == "swap_labels":  # labels permuted among the same persons
        sh = pids[:]
        r.shuffle(sh)
        pm = dict(zip(pids, sh))
        hs = hhs[:]
        r.shuffle(hs)
        hm = dict(zip(hhs, hs))
    else:  # sparse random
        hi_p = r.choice([200, 5000, P_RANGE])
        hi_h = r.choice([50, 500, H_RANGE])
        pm = dict(zip(pids, r.sample(range(hi_p), len(pids))))
        hm = dict(zip(hhs, r.sample(range(hi_h), len(hhs))))
    # avoid collisions with the bystanders
    if set(pm.values()) & taken_p or set(hm.values()) & taken_h:
        free_p = [x for x in range(max(taken_p | set(pm.values())) + 1, max(taken_p | set(pm.values())) + 1 + len(pids))]
        free_h = [x for x in range(max(taken_h | set(hm.values())) + 1, max(taken_h | set(hm.values())) + 1 + len(hhs))]
        pm = dict(zip(pids, free_p))
        hm = dict(zip(hhs, free_h))
    if all(k == v for k, v in pm.items()) and all(k == v for k, v in hm.items()):
        return None
    return {"p": [[k, v] for k, v in pm.items()], "h": [[k, v] for k, v in hm.items()], "kind": kind}


# ------------------------------------------------------------------ evaluating one case


def evaluate(case, params, functions, graph, types, ref=None, isolate=True):
    import numpy as np

    A = case["A"]
    nA = len(A["p_id"])
    pidsA = list(A["p_id"])
    targets = graph["order"]
    id_nodes = compare.endogenous_id_nodes()
    if ref is None:
        ref = compare.run_call(popgen.to_frame({"cols": A}, types=types), params, functions, targets=targets)
    jc, posA = joint_cols(case)
    res = compare.run_call(popgen.to_frame({"cols": jc}, types=types), params, functions, targets=targets)
    rep = {"ref_kind": ref[0], "kind": res[0], "violating": [], "counts": {"E": 0, "C": 0, "F": 0}, "fp_amplified": [], "unresolved": [], "detail": {}}
    if ref[0] == "exc" or res[0] == "exc":
        # bystanders that make the joint call fail on their own do not say anything about A
        if ref[0] == "exc" and res[0] == "exc" and ref[1] == res[1]:
            return rep
        if ref[0] == "frame" and res[0] == "exc" and case.get("B") and not case.get("_b_checked"):
            alone_b = compare.run_call(popgen.to_frame({"cols": case["B"]}, types=types), params, functions, targets=targets)
            if alone_b[0] == "exc" and alone_b[1] == res[1]:
                rep["b_fails_alone"] = alone_b[1]
                return rep
        rep["violating"] = ["<exception>"]
        rep["detail"]["<exception>"] = {"alone": list(ref[:3]) if ref[0] == "exc" else "frame", "joint": list(res[:3]) if res[0] == "exc" else "frame"}
        return rep
    rf, jf = ref[1], res[1]
    if len(jf) != len(jc["p_id"]) or len(rf) != nA:
        rep["violating"] = ["<row count>"]
        return rep
    idx = np.array(posA, dtype=np.int64)
    a = {c: rf.iloc[:, i].to_numpy() for i, c in enumerate(rf.columns)}
    b = {c: jf.iloc[:, i].to_numpy()[idx] for i, c in enumerate(jf.columns)}
    # derived groups must not mix focus and bystander persons
    foreign = {}
    if case.get("B"):
        isA = np.zeros(len(jc["p_id"]), dtype=bool)
        isA[idx] = True
        for nd in id_nodes:
            if nd in jf.columns:
                g = jf[nd].to_numpy()
                mixed = set(g[isA].tolist()) & set(g[~isA].tolist())
                if mixed:
                    foreign[nd] = sorted(int(x) for x in mixed)[:5]
    pmap = {int(x): int(y) for x, y in case["relabel"]["p"]} if case.get("relabel") else None
    sub = {"order": [t for t in graph["order"] if t in a and t in b], "parents": graph["parents"]}
    # A's rows keep their relative order in every variant, so no float sum of A is
    # re-associated: "identical" is taken literally (bit-exact), see DESIGN 4.2
    cmp_ = compare.compare_aligned(sub, a, b, pidsA, id_nodes, ptr_map=pmap, foreign=foreign, strict=True)
    rep["counts"] = cmp_["counts"]
    rep["violating"] = list(cmp_["frontier"])
    for nd in cmp_["frontier"]:
        rep["detail"][nd] = cmp_["detail"].get(nd)
    rep["n_downstream"] = len(cmp_["downstream"])
    for nd in cmp_["needs_isolation"]:
        # A's rows are in the same order in both runs, so float sums are not re-associated;
        # a C parent is unexpected here - resolve by isolating on A alone vs. itself is
        # meaningless, so count it as unresolved (never an alarm)
        rep["unresolved"].append([nd, "parent within tolerance only"])
    return rep


# ------------------------------------------------------------------ exploration


def _disjoint_B(A, r, year, stat, rows, crowd=0, style="mixed"):
    for _ in range(6):
        if crowd:
            B = popgen.generate_crowd(r.randrange(1 << 30), year, crowd, stat_values=stat, style=style)
        else:
            B = popgen.generate(r.randrange(1 << 30), year, min_rows=1, max_rows=r.randint(1, rows), stat_values=stat, id_mode="dense")
        n, nh = popgen.n_rows(B), len(set(B["cols"]["hh_id"]))
        usedp, usedh = set(A["cols"]["p_id"]), set(A["cols"]["hh_id"])
        mode = r.choice(["above", "interleaved", "far"])
        if mode == "above":
            ps = list(range(max(usedp) + 1, max(usedp) + 1 + n))
            hs = list(range(max(usedh) + 1, max(usedh) + 1 + nh))
        elif mode == "far":
            ps = sorted(r.sample(range(P_RANGE // 2, P_RANGE), n))
            hs = sorted(r.sample(range(H_RANGE // 2, H_RANGE), nh))
        else:
            poolp = [x for x in range(0, max(usedp) + 3 * n + 5) if x not in usedp]
            poolh = [x for x in range(0, max(usedh) + 3 * nh + 3) if x not in usedh]
            ps = r.sample(poolp, n)
            hs = r.sample(poolh, nh)
        pm = dict(zip(B["cols"]["p_id"], ps))
        hm = dict(zip(sorted(set(B["cols"]["hh_id"])), hs))
        return popgen.relabel(B, pm, hm), mode
    return None, None


def explore(run_seed: int, cfg: dict) -> dict:
    from gettsim import set_up_policy_environment

    warnings.simplefilter("ignore")
    r = random.Random(run_seed)
    date = popgen.draw_date(r, cfg["dates"])
    out = {"date": date, "cases": [], "violations": [], "setup": "ok"}
    try:
        params, functions = set_up_policy_environment(date)
        functions = {**functions, **userlib.user_rules()}
        compare.DEFAULT_KW = userlib.order_test_specs()
    except Exception as e:  # noqa: BLE001
        out["setup"] = type(e).__name__
        return out
    types = popgen.input_types()
    stat = popgen.stat_values_from_params(params)
    year = int(date[:4])
    graph = None
    lo, hi = cfg.get("rows", (1, 8))
    for k in range(cfg.get("pairs_per_run", 3)):
        A = ref = None
        for attempt in range(10):
            cand = popgen.generate(r.randrange(1 << 30), year, min_rows=lo, max_rows=r.randint(lo, hi), stat_values=stat)
            if graph is None:
                graph, _ = compare.full_graph(popgen.to_frame(cand, types=types), params, functions)
                if graph is None:
                    from gettsim import config

                    graph = {"order": sorted(config.DEFAULT_TARGETS), "parents": {}, "roots": []}
            rr = compare.run_call(popgen.to_frame(cand, types=types), params, functions, targets=graph["order"])
            A, ref = cand, rr
            if rr[0] == "frame" or r.random() < 0.1:
                break
        B, bmode = _disjoint_B(A, r, year, stat, hi)
        if B is None:
            continue
        nA, nB = popgen.n_rows(A), popgen.n_rows(B)
        case_stat = {"sigA": popgen.structure_signature(A), "sigB": popgen.structure_signature(B), "nA": nA, "nB": nB, "ref": ref[0] if ref[0] == "frame" else ref[1], "variants": [], "E": 0, "C": 0, "F": 0, "unresolved": 0, "b_fails_alone": 0, "bmode": bmode, "varies": popgen.varies_over_rows(A)}
        variants = []
        for fam, m in merges(nA, nB, r, cfg.get("n_random", 2), cfg.get("max_first", 3)):
            variants.append((fam, {"B": B["cols"], "merge": m, "relabel": None}))
        for kb in r.sample(range(nB), min(nB, cfg.get("max_first", 3))):
            if kb:
                variants.append(("each_B_row_first", {"B": rotate_B(B["cols"], kb), "merge": "B" + "A" * nA + "B" * (nB - 1), "relabel": None}))
        for kind in r.sample(["reverse", "shift", "swap_labels", "sparse", "sparse", "huge"], cfg.get("n_relabel", 3)):
            with_b = r.random() < 0.5
            rel = make_relabel(A["cols"], B["cols"] if with_b else None, kind, r)
            if rel is None:
                continue
            m = None
            if with_b:
                mm = ["A"] * nA + ["B"] * nB
                r.shuffle(mm)
                m = "".join(mm)
            variants.append((f"relabel_{kind}" + ("+B" if with_b else ""), {"B": B["cols"] if with_b else None, "merge": m, "relabel": rel}))
        if k == 0 and cfg.get("crowd"):
            # size-dependent code paths: a few hundred unrelated rows around A
            csize, cstyle = popgen.draw_crowd(r, cfg["crowd"])
            C, _ = _disjoint_B(A, r, year, stat, hi, crowd=csize, style=cstyle)
            if C is not None:
                nC = popgen.n_rows(C)
                mm = ["A"] * nA + ["B"] * nC
                r.shuffle(mm)
                variants.append((f"crowd_random_merge", {"B": C["cols"], "merge": "".join(mm), "relabel": None}))
                variants.append((f"crowd_before", {"B": C["cols"], "merge": "B" * nC + "A" * nA, "relabel": None}))
                if r.random() < 0.5:
                    variants.append((f"crowd_after", {"B": C["cols"], "merge": "A" * nA + "B" * nC, "relabel": None}))
                case_stat["crowd"] = [nC, cstyle]
        for fam, v in variants:
            case = {"date": date, "A": A["cols"], **v}
            rep = evaluate(case, params, functions, graph, types, ref=ref)
            case_stat["variants"].append(fam)
            for kk in "ECF":
                case_stat[kk] += rep["counts"][kk]
            case_stat["unresolved"] += len(rep["unresolved"])
            if rep.get("b_fails_alone"):
                case_stat["b_fails_alone"] += 1
            if rep["violating"]:
                small = shrink({**case, "node": rep["violating"][0]}, params, functions, graph, types, budget=cfg.get("shrink_budget", 120))
                small["family"] = fam
                small["original_rows"] = [nA, nB]
                out["violations"].append(small)
                break
        if cfg.get("sample") and k == 0:
            keep = lambda cols: {c: v for c, v in cols.items() if len(set(v)) > 1 or c in ("p_id", "hh_id")}  # noqa: E731
            case_stat["sample"] = {"date": date, "A": keep(A["cols"]), "B_ids": {"p_id": B["cols"]["p_id"], "hh_id": B["cols"]["hh_id"]}, "variants": [f for f, _ in variants]}
        out["cases"].append(case_stat)
    if graph:
        out["n_nodes"] = len(graph["order"])
    return out


# ------------------------------------------------------------------ shrinking


def _fails(case, params, functions, graph, types):
    rep = evaluate(case, params, functions, graph, types)
    return case["node"] in rep["violating"], rep


def _drop_from(cols, drop: set):
    keep = [i for i in range(len(cols["p_id"])) if i not in drop]
    gone = {cols["p_id"][i] for i in drop}
    new = {}
    for c, v in cols.items():
        vals = [v[i] for i in keep]
        if c.startswith("p_id_"):
            vals = [(-1 if x in gone else x) for x in vals]
        new[c] = vals
    return new


def _remove_marker(merge, which, k):
    """Remove the k-th occurrence of marker `which` from the merge string."""
    seen = -1
    out = []
    for ch in merge:
        if ch == which:
            seen += 1
            if seen == k:
                continue
        out.append(ch)
    return "".join(out)


def shrink(case, params, functions, graph, types, budget=120):
    spent = [0]

    def ok(c):
        if spent[0] >= budget:
            return False
        spent[0] += 1
        try:
            return _fails(c, params, functions, graph, types)[0]
        except Exception:  # noqa: BLE001
            return False

    cur = dict(case)
    if cur.get("merge") is None and cur.get("B"):
        cur["merge"] = "A" * len(cur["A"]["p_id"]) + "B" * len(cur["B"]["p_id"])
    if cur.get("merge") is None:
        cur["merge"] = "A" * len(cur["A"]["p_id"])
    # 1. drop the relabelling or the bystanders altogether
    if cur.get("relabel") and cur.get("B"):
        c = {**cur, "relabel": None}
        if ok(c):
            cur = c
        else:
            c = {**cur, "B": None, "merge": "A" * len(cur["A"]["p_id"])}
            if ok(c):
                cur = c
    # 2. drop bystander rows one by one
    changed = True
    while changed and cur.get("B") and spent[0] < budget:
        changed = False
        for j in range(len(cur["B"]["p_id"])):
            nb = _drop_from(cur["B"], {j})
            c = {**cur, "B": nb if nb["p_id"] else None, "merge": _remove_marker(cur["merge"], "B", j)}
            if ok(c):
                cur = c
                changed = True
                break
    # 3. drop focus rows one by one (relabel map is restricted accordingly)
    changed = True
    while changed and len(cur["A"]["p_id"]) > 1 and spent[0] < budget:
        changed = False
        for i in range(len(cur["A"]["p_id"])):
            na = _drop_from(cur["A"], {i})
            rel = cur.get("relabel")
            if rel:
                hh_left = set(na["hh_id"])
                rel = {**rel, "p": [x for x in rel["p"] if x[0] in set(na["p_id"])], "h": [x for x in rel["h"] if x[0] in hh_left]}
            c = {**cur, "A": na, "merge": _remove_marker(cur["merge"], "A", i), "relabel": rel}
            if ok(c):
                cur = c
                changed = True
                break
    # 4. canonical merge: all bystanders first / last
    if cur.get("B"):
        for m in ("B" * len(cur["B"]["p_id"]) + "A" * len(cur["A"]["p_id"]), "A" * len(cur["A"]["p_id"]) + "B" * len(cur["B"]["p_id"])):
            if m != cur["merge"] and ok({**cur, "merge": m}):
                cur = {**cur, "merge": m}
                break
    # 5. reset columns of A and B to defaults in blocks
    for side in ("A", "B"):
        if not cur.get(side):
            continue
        cols = cur[side]
        names = [c for c in cols if not c.startswith("p_id") and c not in ("hh_id", "alter", "geburtsjahr", "geburtsmonat", "geburtstag", "mietstufe", "steuerklasse", "jahr_renteneintr", "monat_renteneintr")]
        names = [c for c in names if any(v != popgen.type_default(types.get(c, float)) for v in cols[c])]
        size = max(1, len(names) // 2)
        while names and spent[0] < budget:
            progressed = False
            for s in range(0, len(names), size):
                chunk = names[s : s + size]
                new = dict(cur[side])
                for c in chunk:
                    new[c] = [popgen.type_default(types.get(c, float))] * len(new[c])
                if ok({**cur, side: new}):
                    cur = {**cur, side: new}
                    names = [c for c in names if c not in chunk]
                    progressed = True
                    break
            if not progressed:
                if size == 1:
                    break
                size = max(1, size // 2)
    _, rep = _fails(cur, params, functions, graph, types)
    cur["report"] = {"violating": rep["violating"], "detail": rep["detail"], "counts": rep["counts"], "n_downstream": rep.get("n_downstream")}
    cur["shrink_candidates"] = spent[0]
    return cur


def replay_case(case: dict) -> dict:
    from gettsim import set_up_policy_environment

    warnings.simplefilter("ignore")
    params, functions = set_up_policy_environment(case["date"])
    functions = {**functions, **userlib.user_rules()}
    compare.DEFAULT_KW = userlib.order_test_specs()
    types = popgen.input_types()
    graph, _ = compare.full_graph(popgen.to_frame({"cols": case["A"]}, types=types), params, functions)
    if graph is None:
        from gettsim import config

        graph = {"order": sorted(config.DEFAULT_TARGETS), "parents": {}, "roots": []}
    _, rep = _fails(case, params, functions, graph, types)
    return {"violating": rep["violating"], "detail": rep["detail"], "counts": rep["counts"]}
