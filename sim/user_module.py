"""A user module passed to GETTSIM by path / import string / module object (C14 histories).
Only plain scalar policy functions; GETTSIM loads every function defined here.

If the environment variable VERIF_UM_FAIL is set the module raises half-way through its
execution - a user module that fails for a reason outside the file itself (a missing
settings file, say).  Histories use this to put a failing load between good ones."""
from __future__ import annotations

import os


def kindergeld_m(kindergeld_anz_ansprüche: int, kindergeld_params: dict) -> float:
    rates = kindergeld_params.get("kindergeld", {})
    first = rates.get(1, 250.0) if isinstance(rates, dict) else float(rates)
    return 1.5 * first * kindergeld_anz_ansprüche


if os.environ.get("VERIF_UM_FAIL"):
    raise RuntimeError("user module: settings not available")


def verif_extra_column(bruttolohn_m: float, alter: int) -> float:
    # integer literal in one branch, fractional float in the other; annotated with a
    # *string* annotation because of the __future__ import above
    if alter < 18:
        out = 0
    else:
        out = 0.5 * bruttolohn_m + 0.125
    return out
