"""A user module passed to GETTSIM by path / import string / module object (C14 histories).
Only plain scalar policy functions; GETTSIM loads every function defined here."""


def kindergeld_m(kindergeld_anz_ansprüche: int, kindergeld_params: dict) -> float:
    rates = kindergeld_params.get("kindergeld", {})
    first = rates.get(1, 250.0) if isinstance(rates, dict) else float(rates)
    return 1.5 * first * kindergeld_anz_ansprüche


def verif_extra_column(bruttolohn_m: float, alter: int) -> float:
    if alter < 18:
        out = 0.0
    else:
        out = 0.5 * bruttolohn_m
    return out
