"""C14 - simulation is pure, deterministic and independent of process history.

Child-side code: history generation (pure), session execution (one process holds the
whole history), reference execution (one call in a pristine process).  Driver-side code
is in sim/c14_driver.py.
"""
from __future__ import annotations

import copy
import random
import sys
import warnings

from sim import popgen, seams, userlib
from sim.core import canon, canon_frame, code_hash, describe_callable, digest


DATA_FORMS = ["frame", "frame", "dict", "dict_conv", "frame_conv", "series_dict_mixed", "two_units"]
DERIVE_OPS = ["move_out", "permute_middle", "tweak_value", "swap_labels", "relabel_hh"]


# =========================================================================== generation


def gen_history(run_seed: int, cfg: dict) -> dict:
    """A history is pure data.  cfg: {"dates": [...], "max_ops": int, "faults": bool}."""
    r = random.Random(run_seed)
    dates_pool = cfg["dates"]
    n_dates = r.choice([1, 1, 2, 2, 3])
    dates = [popgen.draw_date(r, dates_pool) for _ in range(n_dates)]
    n_pops = r.choice([1, 2, 2, 3])
    pops = {}
    for k in range(n_pops):
        if k > 0 and r.random() < 0.45:
            # a "what-if" variant of an earlier population: same persons, one thing changed
            pops[f"p{k}"] = {"derive": f"p{r.randrange(k)}", "how": r.choice(DERIVE_OPS), "k": r.randrange(1 << 16)}
        else:
            pops[f"p{k}"] = {"seed": r.randrange(1 << 30), "year": int(r.choice(dates)[:4]), "max_rows": r.choice([3, 5, 8, 12])}
    faults = cfg.get("faults", True)
    # swarm weights per history
    style = r.choice(["mixed", "mixed", "mixed", "compute_heavy", "reform_heavy", "rewrite_first", "setup_heavy", "fault_heavy" if faults else "mixed"])
    w = {"SETUP": 1.5, "COMPUTE": 6, "REPEAT": 2, "REFORM": 2, "REVERT": 1, "REPLACE": 1.6, "ALIAS": 0.5, "DEEPCOPY": 0.5, "REWRITE": 0.8, "BADDATA": 0.7, "SWEEP": 0.5 if faults else 0}
    if style == "compute_heavy":
        w.update(COMPUTE=10, REPEAT=4, REWRITE=0.3)
    elif style == "reform_heavy":
        w.update(REFORM=6, REVERT=3, REPLACE=3, ALIAS=2, DEEPCOPY=2)
    elif style == "setup_heavy":
        w.update(SETUP=6)
    elif style == "fault_heavy":
        w.update(BADDATA=3, SWEEP=2)
    p_abort = 0.0 if not faults else {"fault_heavy": 0.35}.get(style, r.choice([0.0, 0.08, 0.15]))
    p_io = 0.0 if not faults else {"fault_heavy": 0.4}.get(style, r.choice([0.0, 0.1, 0.2]))
    n_ops = r.randint(5, cfg.get("max_ops", 16))
    ops = []
    handles = []
    n_reforms = {}
    have_compute = False

    def targets_spec():
        u = r.random()
        if u < 0.4:
            return "default"
        if u < 0.6:
            return {"default_subset": sorted(r.sample(range(18), r.randint(1, 4)))}
        return {"fracs": [round(r.random(), 6) for _ in range(r.randint(1, 4))]}

    hdate = {}

    def mk_setup(date=None):
        e = f"e{len(handles)}" if (not handles or r.random() < 0.7) else r.choice(handles)
        op = {"op": "SETUP", "e": e, "date": date or r.choice(dates)}
        hdate[e] = op["date"]
        if r.random() < p_abort:
            # half log-uniform (early windows), half uniform (late windows) over the ~50 k line events of a set-up
            op["abort"] = int(10 ** r.uniform(0, 4.78)) if r.random() < 0.5 else r.randint(1, 52000)
        elif r.random() < p_io:
            if r.random() < 0.3:
                op["listfault"] = {"n": r.randint(1, 3), "kind": r.choice(["LIST_EIO", "LIST_SHORT"]), "cut": round(r.uniform(0.1, 0.9), 3)}
            else:
                # a set-up reads each of the ~19 files several times (157 reads): small n = first read of a file
                op["iofault"] = {"n": r.randint(1, 19) if r.random() < 0.5 else r.randint(1, 159), "kind": r.choice(["EIO", "ENOENT", "EACCES", "SHORT", "SHORT"]), "cut": round(r.uniform(0.05, 0.95), 3)}
        if e not in handles:
            handles.append(e)
            n_reforms[e] = 0
        return op

    def mk_compute():
        op = {
            "op": "COMPUTE",
            "e": r.choice(handles),
            "pop": r.choice(sorted(pops)),
            "targets": targets_spec(),
            "rounding": r.random() < 0.75,
            "debug": r.random() < 0.2,
            "cms": r.choice(["ignore", "ignore", "warn"]),
            "form": r.choice(DATA_FORMS),
            "reuse": r.random() < 0.6,
        }
        if r.random() < 0.22:
            op["agg"] = r.choice([k for k in userlib.AGG_SPECS if k != "none"])
        if r.random() < 0.08:
            op["um_fail"] = True
        if r.random() < p_io * 0.5:
            op["listfault"] = {"n": r.randint(1, 6), "kind": r.choice(["LIST_EIO", "LIST_SHORT"]), "cut": round(r.uniform(0.1, 0.9), 3)}
        if r.random() < p_abort:
            op["abort"] = int(10 ** r.uniform(0, 5.08)) if r.random() < 0.5 else r.randint(1, 105000)
        return op

    def first_setup():
        # sometimes the very first set-up of the process is the faulty one (first read of
        # every file); a clean set-up of the same handle follows so that the rest of the
        # history has an environment to work with
        st = mk_setup()
        if faults and r.random() < 0.2 and not any(k in st for k in ("abort", "iofault", "listfault")):
            u = r.random()
            if u < 0.5:
                st["iofault"] = {"n": r.randint(1, 19), "kind": r.choice(["SHORT", "SHORT", "EIO"]), "cut": round(r.uniform(0.05, 0.95), 3)}
            elif u < 0.75:
                st["abort"] = r.randint(1, 52000)
            else:
                st["listfault"] = {"n": r.randint(1, 3), "kind": r.choice(["LIST_EIO", "LIST_SHORT"]), "cut": round(r.uniform(0.1, 0.9), 3)}
        faulty = any(k in st for k in ("abort", "iofault", "listfault"))
        if faulty and r.random() < 0.8:
            clean = {"op": "SETUP", "e": st["e"], "date": st["date"]}
            return [st, clean]
        st.pop("abort", None)
        st.pop("iofault", None)
        st.pop("listfault", None)
        return [st]

    if style == "rewrite_first":
        ops.extend(first_setup())
        ops.append({"op": "REWRITE", "e": handles[0], "which": "all", "kind": r.choice(["func", "func", "source"])})
    else:
        ops.extend(first_setup())
    while len(ops) < n_ops:
        kinds = [k for k in w if w[k] > 0]
        k = r.choices(kinds, [w[x] for x in kinds])[0]
        if k == "SETUP":
            ops.append(mk_setup())
        elif k == "COMPUTE":
            ops.append(mk_compute())
            have_compute = True
        elif k == "REPEAT":
            if have_compute:
                ops.append({"op": "REPEAT"})
        elif k == "REFORM":
            e = r.choice(handles)
            ops.append({"op": "REFORM", "e": e, "reform": {"group_frac": round(r.random(), 6), "leaf_frac": round(r.random(), 6), "op": r.choice(["mul", "mul", "add", "set"]), "x": r.choice([0.0, 0.5, 1.5, 2.0, 10.0, 100.25])}})
            n_reforms[e] += 1
            # an in-place reform followed by a new set-up of the same date (and a simulation
            # with it) is the pattern in which shared parameter objects show
            if r.random() < 0.4 and e in hdate:
                st = mk_setup(hdate[e])
                st.pop("abort", None)
                st.pop("iofault", None)
                ops.append(st)
                cp = mk_compute()
                cp["e"] = st["e"]
                cp.pop("abort", None)
                ops.append(cp)
                have_compute = True
        elif k == "REVERT":
            e = r.choice(handles)
            if n_reforms[e] > 0:
                ops.append({"op": "REVERT", "e": e})
                n_reforms[e] -= 1
        elif k == "REPLACE":
            variant = r.choice([*userlib.REPLACEMENTS, f"copy:{round(r.random(), 6)}", f"copy:{round(r.random(), 6)}", f"derived:{round(r.random(), 6)}", f"derived:{round(r.random(), 6)}", f"derived:{round(r.random(), 6)}", "module_path", "module_import", "module_object"])
            rop = {"op": "REPLACE", "e": r.choice(handles), "variant": variant, "mode": r.choice(["dict", "list"])}
            ops.append(rop)
            if variant == "module_path" and r.random() < 0.7:
                # a load of the user's module that fails for an outside reason, between good ones
                for fail in ((True, False) if r.random() < 0.5 else (False, True, False)):
                    cp = mk_compute()
                    cp["e"] = rop["e"]
                    cp.pop("abort", None)
                    cp.pop("listfault", None)
                    cp.pop("um_fail", None)
                    if fail:
                        cp["um_fail"] = True
                    ops.append(cp)
                have_compute = True
        elif k in ("ALIAS", "DEEPCOPY"):
            e2 = f"e{len(handles)}"
            src = r.choice(handles)
            ops.append({"op": k, "e2": e2, "e": src})
            handles.append(e2)
            if src in hdate:
                hdate[e2] = hdate[src]
            n_reforms[e2] = 0  # conservative: REVERT is only generated for reforms applied through this handle
        elif k == "REWRITE":
            which = r.choice(["all", "some", "some", "lib"])
            op = {"op": "REWRITE", "e": r.choice(handles), "which": which, "kind": r.choice(["func", "func", "source"])}
            if r.random() < 0.3:
                op["kind"] = "source"  # (the callable for jax cannot be built here: jax is not installed)
                op["backend"] = "jax"  # source for the other backend (jax itself is not installed: 'func' then fails loudly, identically everywhere)
            if which == "some":
                op["fracs"] = [round(r.random(), 6) for _ in range(r.randint(1, 25))]
            if r.random() < p_abort:
                op["abort"] = int(10 ** r.uniform(0, 4.3))
            if op.get("backend") == "jax" and r.random() < 0.6:
                # the same functions rewritten for the other backend first (two cooperating calls)
                first = {k: v for k, v in op.items() if k not in ("backend", "abort")}
                first["kind"] = r.choice(["source", "func"])
                ops.append(first)
            ops.append(op)
        elif k == "SWEEP":
            what = r.choice(["REWRITE", "REWRITE", "COMPUTE", "COMPUTE", "SETUP"])
            op = {"op": "SWEEP", "what": what, "e": r.choice(handles)}
            if what == "REWRITE":
                op.update(frac=round(r.random(), 6), stride=r.choice([1, 1, 2, 3]), offset=r.randrange(3))
            elif what == "COMPUTE":
                stride = r.choice([1500, 2500, 4000])
                op.update(stride=stride, offset=r.randrange(stride), max_aborts=40, compute={**mk_compute(), "reuse": True})
                op["compute"].pop("abort", None)
                op["compute"].pop("listfault", None)
                op["compute"]["e"] = op["e"]
            else:
                stride = r.choice([5000, 8000])
                op.update(stride=stride, offset=r.randrange(stride), max_aborts=8, date=hdate.get(op["e"], r.choice(dates)))
            ops.append(op)
        elif k == "BADDATA":
            ops.append({"op": "BADDATA", "e": r.choice(handles), "pop": r.choice(sorted(pops)), "fault": r.choice(["dup_pid", "self_ptr", "drop_col", "frac_int", "hh_var", "obj_dtype", "bigint_float", "bigint_float"]), "row": r.randrange(64), "form": r.choice(["frame", "dict"])})
    # make sure something is compared after something state-changing
    if not any(o["op"] in ("COMPUTE", "REPEAT") for o in ops[1:]):
        ops.append(mk_compute())
    ops.append({**mk_compute(), "abort": None} if r.random() < 0.5 else mk_setup())
    for o in ops:
        if o.get("abort") is None:
            o.pop("abort", None)
    env = {"rglob_seed": r.randrange(1 << 30) if (faults and r.random() < 0.5) else None, "style": style}
    strict_wanted = r.random() < 0.12
    import os

    if strict_wanted or os.environ.get("VERIF_C14_FORCE_STRICT"):  # (env knob: soak the strict mode only)
        env["np_strict"] = True
        # a strict-mode caller is interested in what a *rejected* call leaves behind
        pos = r.randint(1, len(ops))
        bad = {"op": "BADDATA", "e": handles[0], "pop": sorted(pops)[0], "fault": "bigint_float", "row": r.randrange(64), "form": r.choice(["frame", "dict"])}
        ops.insert(pos, bad)
        cp = mk_compute()
        cp.pop("abort", None)
        cp.pop("listfault", None)
        ops.insert(pos + 1, cp)  # the caller runs numpy in strict mode: numpy.seterr(divide/invalid/over = "raise")
    return {"env": env, "pops": pops, "ops": ops}


def normalize(history: dict) -> dict:
    """Drop ops that refer to handles / state that no longer exist (after ops were
    removed by the shrinker).  Static: assumes a SETUP binds its handle."""
    bound = set()
    reforms = {}
    have_compute = False
    out = []
    for o in history["ops"]:
        k = o["op"]
        if k == "SETUP":
            bound.add(o["e"])
            reforms.setdefault(o["e"], 0)
            if "abort" not in o and "iofault" not in o:
                reforms[o["e"]] = 0
        elif k in ("ALIAS", "DEEPCOPY"):
            if o["e"] not in bound:
                continue
            bound.add(o["e2"])
            reforms[o["e2"]] = 0
        elif k == "REPEAT":
            if not have_compute:
                continue
        elif k == "REVERT":
            if o["e"] not in bound or reforms.get(o["e"], 0) <= 0:
                continue
            reforms[o["e"]] -= 1
        else:
            if o.get("e") not in bound:
                continue
            if k == "REFORM":
                reforms[o["e"]] = reforms.get(o["e"], 0) + 1
            if k == "COMPUTE":
                have_compute = True
        out.append(o)
    return {**history, "ops": out}


# =========================================================================== shared helpers


def resolve_pop_recipe(pops: dict, key: str, depth=0) -> dict:
    """Self-contained recipe (derived populations carry their base recipe inline)."""
    rec = pops[key]
    if "derive" in rec and isinstance(rec["derive"], str) and depth < 5:
        return {**rec, "derive": resolve_pop_recipe(pops, rec["derive"], depth + 1)}
    return rec


def build_population(pop_recipe: dict) -> dict:
    if "derive" in pop_recipe:
        return derive_population(build_population(pop_recipe["derive"]), pop_recipe["how"], pop_recipe["k"])
    return popgen.generate(pop_recipe["seed"], pop_recipe["year"], max_rows=pop_recipe["max_rows"])


def derive_population(pop: dict, how: str, k: int) -> dict:
    """A 'what-if' variant: the same persons with one thing changed (still valid)."""
    r = random.Random(f"derive:{how}:{k}")
    cols = {c: list(v) for c, v in pop["cols"].items()}
    n = len(cols["p_id"])
    pid = cols["p_id"]
    ptr = [c for c in cols if c.startswith("p_id_")]
    if how == "move_out":
        pointed = {v for c in ptr for v in cols[c] if v >= 0}
        hh_size = {h: cols["hh_id"].count(h) for h in set(cols["hh_id"])}
        cand = [i for i in range(n) if cols["alter"][i] >= 18 and cols["p_id_einstandspartner"][i] < 0 and cols["p_id_ehepartner"][i] < 0 and pid[i] not in pointed and hh_size[cols["hh_id"][i]] >= 2]
        if cand:
            i = r.choice(cand)
            cols["hh_id"][i] = max(cols["hh_id"]) + 1
    elif how == "permute_middle" and n >= 4:
        mid = list(range(1, n - 1))
        r.shuffle(mid)
        order = [0, *mid, n - 1]
        cols = {c: [v[i] for i in order] for c, v in cols.items()}
    elif how == "tweak_value":
        i = r.randrange(n)
        c = r.choice(["bruttolohn_m", "kapitaleink_brutto_m", "vermögen_bedürft", "sonstig_eink_m"])
        if c in cols:
            cols[c][i] = cols[c][i] + r.choice([100.25, 1000.0, 0.5])
    elif how == "swap_labels" and n >= 2:
        a, b = r.sample(range(n), 2)
        m = {pid[a]: pid[b], pid[b]: pid[a]}
        cols["p_id"] = [m.get(v, v) for v in pid]
        for c in ptr:
            cols[c] = [m.get(v, v) for v in cols[c]]
    elif how == "relabel_hh":
        cols["hh_id"] = [h + 7 for h in cols["hh_id"]]
    return {**pop, "cols": cols, "seed": f"{pop.get('seed')}/{how}/{k}"}


def make_data(pop: dict, form: str):
    """Build the `data` argument in the requested form (fresh objects)."""
    import numpy as np
    import pandas as pd

    df = popgen.to_frame(pop)
    types = popgen.input_types()
    if form in ("frame_conv", "dict_conv", "series_dict_mixed"):
        # losslessly convertible dtypes for a deterministic subset of columns
        rr = random.Random(f"conv:{pop.get('seed')}:{form}")
        for c in df.columns:
            if c in ("p_id", "hh_id") or rr.random() < 0.5:
                continue
            t = types.get(c)
            v = df[c].to_numpy()
            if t is float and np.all(np.isfinite(v)) and np.all(v == np.round(v)) and np.all(np.abs(v) < 2**40):
                df[c] = v.astype(np.int64)
            elif t is int:
                df[c] = v.astype(np.float64)
            elif t is bool:
                df[c] = v.astype(np.int64 if rr.random() < 0.5 else np.float64)
    if form == "two_units":
        # the same quantity supplied in two time units (deliberately not consistent to
        # the last cent): which one wins must not depend on anything but the call
        for src, dst, f in (("bruttolohn_m", "bruttolohn_w", 0.25), ("eink_selbst_m", "eink_selbst_w", 0.2), ("eink_vermietung_m", "eink_vermietung_d", 0.03), ("kapitaleink_brutto_m", "kapitaleink_brutto_w", 0.25)):
            if src in df.columns:
                df[dst] = df[src].to_numpy() * f + 1.0
    if form in ("frame", "frame_conv", "two_units"):
        return df
    d = {c: df[c] for c in df.columns}
    if form == "series_dict_mixed":
        # Series that carry their own (equal) non-default index
        idx = pd.Index([f"r{i}" for i in range(len(df))])
        d = {c: pd.Series(s.to_numpy(), index=idx, name=c) for c, s in d.items()}
    return d


def resolve_targets(spec, functions: dict):
    from gettsim import config

    if spec == "default" or spec is None:
        return None
    if "default_subset" in spec:
        dt = list(config.DEFAULT_TARGETS)
        return [dt[i % len(dt)] for i in spec["default_subset"]]
    if "names" in spec:
        return list(spec["names"])
    names = sorted(functions)
    return sorted({names[int(f * len(names)) % len(names)] for f in spec["fracs"]})


def apply_data_fault(data, fault: str, row: int):
    """One C20-style corruption (only to put failing calls into histories)."""
    import numpy as np
    import pandas as pd

    is_dict = isinstance(data, dict)
    df = pd.DataFrame({k: v.to_numpy() for k, v in data.items()}) if is_dict else data.copy()
    n = len(df)
    i = row % n
    if fault == "dup_pid" and n > 1:
        df.loc[i, "p_id"] = df["p_id"].iloc[(i + 1) % n]
    elif fault == "self_ptr":
        df.loc[i, "p_id_elternteil_1"] = df["p_id"].iloc[i]
    elif fault == "drop_col":
        df = df.drop(columns=["alter"])
    elif fault == "frac_int":
        df["alter"] = df["alter"].astype(float)
        df.loc[i, "alter"] = df["alter"].iloc[i] + 0.5
    elif fault == "hh_var":
        df.loc[i, "wohnfläche_hh"] = df["wohnfläche_hh"].iloc[i] + 1.0
        if (df["hh_id"] == df["hh_id"].iloc[i]).sum() < 2:
            df.loc[i, "p_id_ehepartner"] = df["p_id"].iloc[i]
    elif fault == "obj_dtype":
        df["alter"] = df["alter"].astype(object)
    elif fault == "bigint_float":
        x = np.zeros(n, dtype=np.int64)
        x[i] = 2**53 + 1
        df["vermögen_bedürft"] = x
    else:
        df = df.drop(columns=["p_id"])
    if is_dict:
        return {c: df[c] for c in df.columns}
    return df


def outcome_of_compute(res) -> dict:
    if res[0] == "exc":
        return {"kind": "exc", "cls": res[1]}
    df = res[1]
    cf = canon_frame(df)
    return {"kind": "frame", "cols": [[c[0], c[1], c[2][-1] if isinstance(c[2], list) else c[2]] for c in cf[0]], "index": digest(cf[1]), "n": len(df)}


def outcome_of_setup(params, functions) -> dict:
    return {
        "kind": "env",
        "params": {str(g): digest(canon(v)) for g, v in params.items()},
        "functions": {n: digest(describe_callable(f)) for n, f in functions.items()},
    }


def call_compute(data, params, functions, targets, op):
    from sim.compare import run_call

    kw = {}
    if op.get("agg"):
        g, p, extra = userlib.AGG_SPECS[op["agg"]]
        # fresh dicts per call: they are caller-owned objects too (see run_session snapshots)
        kw["aggregate_by_group_specs"] = op.get("_agg_objs", ({k: dict(v) for k, v in g.items()}, None))[0]
        kw["aggregate_by_p_id_specs"] = op.get("_agg_objs", (None, {k: dict(v) for k, v in p.items()}))[1]
        if targets is not None:
            targets = sorted(set(targets) | set(extra))
        else:
            from gettsim import config

            targets = sorted(set(config.DEFAULT_TARGETS) | set(extra))
    import os

    if op.get("um_fail"):
        os.environ["VERIF_UM_FAIL"] = "1"
    try:
        return run_call(data, params, functions, targets=targets, rounding=op["rounding"], debug=op["debug"], check_minimal_specification=op["cms"], **kw)
    finally:
        os.environ.pop("VERIF_UM_FAIL", None)


def rewrite_targets(op, functions: dict) -> list:
    names = sorted(functions)
    if op["which"] == "all":
        return names
    if op["which"] == "lib":
        return ["<lib>"]
    return sorted({names[int(f * len(names)) % len(names)] for f in op["fracs"]})


def do_rewrite(op, functions: dict) -> dict:
    """Execute a REWRITE; outcome = per function success class + digest of the product."""
    from _gettsim.vectorization import make_vectorizable, make_vectorizable_source

    out = {}
    for name in rewrite_targets(op, functions):
        f = userlib.soli_zero if name == "<lib>" else functions[name]
        try:
            backend = op.get("backend", "numpy")
            if op["kind"] == "source":
                out[name] = "src:" + digest(make_vectorizable_source(f, backend))
            else:
                g = make_vectorizable(f, backend)
                out[name] = "fn:" + code_hash(g.__code__)
        except Exception as e:  # noqa: BLE001
            out[name] = "exc:" + type(e).__name__
    return {"kind": "rewrite", "n": len(out), "digest": digest(out), "per_function": out}


# =========================================================================== session


class ParamsBox:
    def __init__(self, params, date):
        self.params = params
        self.date = date
        self.reforms = []  # applied: (group, path, op, x, old)


class Env:
    def __init__(self, box, functions, repl):
        self.box = box
        self.functions = functions  # the object passed as `functions=`
        self.repl = repl  # list of (variant, mode, resolved name)


_STRICT = [False]
_KEEPALIVE = []  # every caller-owned object ever snapshotted stays alive => id() is never reused


def _snapshot_all(envs: dict, data_objs: dict) -> dict:
    """Digest of every live caller-owned object, keyed by *object identity* (a handle
    that is re-bound to a new object must not look like a mutation)."""
    snap = {}
    for h, env in envs.items():
        for kind, obj in (("params", env.box.params), ("functions", env.functions)):
            key = f"{kind}@{id(obj)}"
            if key not in snap:
                _KEEPALIVE.append(obj)
                snap[key] = digest(canon(obj) if kind == "params" else _canon_functions_arg(obj))
    for name, obj in data_objs.items():
        key = f"data@{id(obj)}/{name.split('/')[-1]}"
        _KEEPALIVE.append(obj)
        snap[key] = digest(_canon_data(obj))
    if _STRICT[0]:
        # the caller configured numpy's error handling explicitly: it is the caller's state
        import numpy as np

        snap["config@numpy_errstate"] = digest(sorted(np.geterr().items()))
    return snap


def _canon_functions_arg(fa):
    if isinstance(fa, dict):
        return ["dict", [[k, id(v), describe_callable(v), canon(getattr(v, "__dict__", {}))] for k, v in fa.items()]]
    if isinstance(fa, list):
        return ["list", [_canon_functions_arg(x) for x in fa]]
    return canon(fa)


def _canon_data(obj):
    import pandas as pd

    if isinstance(obj, pd.DataFrame):
        return ["frame", canon_frame(obj)]
    if isinstance(obj, dict):
        return ["dict", [[k, id(v), canon(v)] for k, v in obj.items()]]
    return canon(obj)


def global_fingerprint() -> dict:
    """Probe (never an oracle): GETTSIM's process-global state."""
    fp = {}
    try:
        from _gettsim.shared import TIME_DEPENDENT_FUNCTIONS as reg

        fp["registry_total"] = sum(len(v) for v in reg.values())
        fp["registry_keys"] = len(reg)
    except Exception:  # noqa: BLE001
        fp["registry_total"] = None
    mods = {k: m for k, m in sys.modules.items() if k.startswith("_gettsim") and m is not None}
    fp["n_modules"] = len(mods)
    h = []
    for k in sorted(mods):
        m = mods[k]
        for n, v in sorted(vars(m).items()):
            code = getattr(v, "__code__", None)
            if code is not None and getattr(v, "__module__", None) == k:
                h.append((k, n, code_hash(code)))
    fp["module_functions"] = digest(h)
    fp["n_module_functions"] = len(h)
    try:
        from _gettsim import config

        fp["use_jax"] = bool(config.USE_JAX)
    except Exception:  # noqa: BLE001
        pass
    return fp


def run_session(history: dict, opts: dict | None = None) -> dict:
    """Execute a whole history in this (forked, pristine) process."""
    from gettsim import set_up_policy_environment

    opts = opts or {}
    warnings.simplefilter("ignore")
    if history["env"].get("np_strict"):
        import numpy as np

        np.seterr(divide="raise", invalid="raise", over="raise")
        _STRICT[0] = True
    envs: dict[str, Env] = {}
    pops = {}
    data_objs = {}
    events = []
    last_compute = None
    line_events = 0
    fp0 = digest(global_fingerprint())
    fps = [fp0]

    rg = seams.RglobOrder(history["env"].get("rglob_seed"))
    rg.__enter__()
    try:
        for i, op in enumerate(history["ops"]):
            ev = {"i": i, "op": op["op"], "status": "ok"}
            kind = op["op"]
            if kind == "REPEAT":
                if last_compute is None:
                    ev["status"] = "skipped"
                    events.append(ev)
                    continue
                op = {**last_compute, "reuse": True}
                op.pop("abort", None)
                kind = "COMPUTE"
                ev["repeat_of"] = last_compute.get("_i")
            # caller-side preparation (building the table) happens before the snapshot
            prepared = None
            if kind == "COMPUTE" and op.get("e") in envs:
                prepared = _get_data(op, pops, data_objs, history)
                if op.get("agg"):
                    g, p, _ = userlib.AGG_SPECS[op["agg"]]
                    objs = ({k: dict(v) for k, v in g.items()}, {k: dict(v) for k, v in p.items()})
                    op = {**op, "_agg_objs": objs}
                    data_objs[f"aggspecs{i}/specs"] = list(objs)
            elif kind == "SWEEP" and op["what"] == "COMPUTE" and op.get("e") in envs:
                prepared = _get_data(op["compute"], pops, data_objs, history)
                op = {**op, "_prepared": prepared}
            elif kind == "BADDATA" and op.get("e") in envs:
                pk = op["pop"]
                if pk not in pops:
                    pops[pk] = build_population(resolve_pop_recipe(history["pops"], pk))
                bad = apply_data_fault(make_data(pops[pk], op["form"]), op["fault"], op["row"])
                data_objs[f"bad{i}/{op['form']}"] = bad
                prepared = bad
            before = _snapshot_all(envs, data_objs)
            try:
                if kind == "SETUP":
                    _do_setup(op, envs, ev, set_up_policy_environment, rg)
                elif kind == "SWEEP":
                    _do_sweep(op, envs, pops, data_objs, history, ev, set_up_policy_environment)
                elif kind in ("ALIAS", "DEEPCOPY"):
                    src = envs.get(op["e"])
                    if src is None:
                        ev["status"] = "skipped"
                    elif kind == "ALIAS":
                        envs[op["e2"]] = Env(src.box, src.functions, list(src.repl))
                    else:
                        box = ParamsBox(copy.deepcopy(src.box.params), src.box.date)
                        box.reforms = list(src.box.reforms)
                        import sim.user_module as um

                        # a module object in the user's list cannot be deep-copied; it is kept by reference
                        envs[op["e2"]] = Env(box, copy.deepcopy(src.functions, {id(um): um}), list(src.repl))
                        ev["deepcopy"] = True
                elif kind == "REFORM":
                    env = envs.get(op["e"])
                    if env is None:
                        ev["status"] = "skipped"
                    else:
                        applied = userlib.apply_reform(env.box.params, op["reform"])
                        if applied is None:
                            ev["status"] = "skipped"
                        else:
                            g, path, old, new = applied
                            env.box.reforms.append({"group": g, "path": list(path), "old": old, "new": new})
                            ev["resolved"] = {"group": g, "path": [str(p) for p in path], "old": repr(old), "new": repr(new)}
                elif kind == "REVERT":
                    env = envs.get(op["e"])
                    if env is None or not env.box.reforms:
                        ev["status"] = "skipped"
                    else:
                        rf = env.box.reforms.pop()
                        userlib.undo_reform(env.box.params, (rf["group"], tuple(rf["path"]), rf["old"], rf["new"]))
                elif kind == "REPLACE":
                    env = envs.get(op["e"])
                    if env is None:
                        ev["status"] = "skipped"
                    else:
                        base = env.functions
                        newf, name = userlib.apply_replacement(_as_dict(base), op["variant"], op["mode"]) if isinstance(base, dict) else _replace_in_list(base, op)
                        if name is None:
                            ev["status"] = "skipped"
                        else:
                            envs[op["e"]] = Env(env.box, newf, [*env.repl, {"variant": op["variant"], "mode": op["mode"], "name": name}])
                            ev["resolved"] = name
                elif kind == "COMPUTE":
                    op_rec = {**op, "_i": i}
                    if "abort" not in op:
                        last_compute = op_rec
                    line_events += _do_compute(op, envs, prepared, history, ev, rg)
                elif kind == "BADDATA":
                    _do_baddata(op, envs, prepared, ev)
                elif kind == "REWRITE":
                    env = envs.get(op["e"])
                    if env is None:
                        ev["status"] = "skipped"
                    else:
                        fdict = _as_dict(env.functions)
                        if "abort" in op:
                            inj = seams.AbortInjector(op["abort"])
                            try:
                                with inj:
                                    ev["outcome"] = do_rewrite(op, fdict)
                            except seams.SimAbort:
                                ev["faults"] = {"abort": {"k": op["abort"], "fired": True, "lines": inj.count}}
                                raise
                            ev["faults"] = {"abort": {"k": op["abort"], "fired": False, "lines": inj.count}}
                        else:
                            ev["outcome"] = do_rewrite(op, fdict)
                        ev["ref"] = {"kind": "REWRITE", "date": env.box.date, "op": _pure(op), "repl": [dict(x) for x in env.repl]}
                else:
                    ev["status"] = "skipped"
            except seams.SimAbort as e:
                ev["status"] = "aborted"
                ev["abort_at"] = str(e)
            after = _snapshot_all(envs, data_objs)
            # I1 purity: nothing the caller owns may change during a *library* call
            if kind in ("SETUP", "COMPUTE", "BADDATA", "REWRITE", "SWEEP"):
                changed = sorted(k for k in before if k in after and before[k] != after[k])
                if changed:
                    # report by kind (object ids are process specific)
                    ev["purity"] = sorted({k.split("@")[0] + (":" + k.split("/")[-1] if k.startswith("data@") else "") for k in changed})
            fp = digest(global_fingerprint())
            ev["fp"] = fp
            fps.append(fp)
            events.append(ev)
    finally:
        rg.__exit__(None, None, None)
    strict = bool(history["env"].get("np_strict"))
    for ev in events:
        if ev.get("ref") is not None:
            ev["ref"]["np_strict"] = strict
    return {"events": events, "line_events": line_events, "rglob_calls": rg.calls, "fingerprints": fps, "fp_final": global_fingerprint()}


def _pure(op):
    return {k: v for k, v in op.items() if not k.startswith("_")}


def _as_dict(fa):
    if isinstance(fa, dict):
        return fa
    # [functions, {name: f}, ...] -> merged view (only for name resolution)
    out = {}
    for x in fa:
        if isinstance(x, dict):
            out.update(x)
        elif callable(x):
            out[x.__name__] = x
        else:  # path / import string / module object of sim.user_module
            import inspect

            import sim.user_module as um

            out.update({n: f for n, f in inspect.getmembers(um, inspect.isfunction)})
    return out


def _replace_in_list(base, op):
    merged = _as_dict(base)
    if op["variant"].startswith("module_"):
        return userlib.apply_replacement(base, op["variant"], "list")
    if op["variant"].startswith("copy:"):
        name = userlib.resolve_name(merged, op["variant"][5:])
        f = userlib.identical_copy(merged[name])
    elif op["variant"].startswith("derived:"):
        name, f = userlib.resolve_derived(merged, op["variant"][8:])
        if name is None:
            return base, None
    else:
        name, f = userlib.REPLACEMENTS[op["variant"]]
    return [*base, {name: f}], name


def _do_setup(op, envs, ev, set_up, rg=None):
    if "listfault" in op and rg is not None:
        rg.arm(op["listfault"])
        try:
            try:
                set_up(op["date"])
                ev["outcome"] = {"kind": "discarded"}
            except Exception as e:  # noqa: BLE001
                ev["outcome"] = {"kind": "exc", "cls": type(e).__name__}
        finally:
            fired = rg.fired
            rg.disarm()
        ev["faults"] = {"listfault": {"fired": fired, "kind": op["listfault"]["kind"]}}
        if fired:
            # the directory listing failed or was incomplete: no result is expected, the handle stays as it was
            ev["status"] = "iofault"
            return
        # the fault did not fire (fewer listings than n): fall through to a normal set-up
    inj = seams.AbortInjector(op.get("abort")) if "abort" in op else None
    io = seams.ReadFaults(op["iofault"]["n"], op["iofault"]["kind"], op["iofault"].get("cut", 0.5)) if "iofault" in op else None
    try:
        if io:
            io.__enter__()
        try:
            if inj:
                with inj:
                    params, functions = set_up(op["date"])
            else:
                params, functions = set_up(op["date"])
        finally:
            if io:
                io.__exit__(None, None, None)
    except seams.SimAbort:
        ev["faults"] = {"abort": {"k": op.get("abort"), "fired": True, "lines": inj.count}}
        raise
    except Exception as e:  # noqa: BLE001
        ev["status"] = "exc"
        ev["outcome"] = {"kind": "exc", "cls": type(e).__name__}
        if io and io.fired:
            ev["faults"] = {"iofault": {"fired": io.fired}}
            ev["status"] = "iofault"
        else:
            ev["ref"] = {"kind": "SETUP", "date": op["date"]}
        return
    if inj:
        ev["faults"] = {"abort": {"k": op.get("abort"), "fired": False, "lines": inj.count}}
    if io:
        ev.setdefault("faults", {})["iofault"] = {"fired": io.fired, "reads": io.count}
        if io.fired:
            # the file system lied: whatever came back is discarded, the handle stays as it was
            ev["status"] = "iofault"
            return
    envs[op["e"]] = Env(ParamsBox(params, op["date"]), functions, [])
    ev["outcome"] = outcome_of_setup(params, functions)
    ev["ref"] = {"kind": "SETUP", "date": op["date"]}


def _get_data(op, pops, data_objs, history):
    pk = op["pop"]
    if pk not in pops:
        pops[pk] = build_population(resolve_pop_recipe(history["pops"], pk))
    key = f"{pk}/{op['form']}"
    if op.get("reuse") and key in data_objs:
        return data_objs[key], key, True
    data = make_data(pops[pk], op["form"])
    data_objs[key] = data
    return data, key, False


def _do_compute(op, envs, prepared, history, ev, rg=None) -> int:
    env = envs.get(op["e"])
    if env is None:
        ev["status"] = "skipped"
        return 0
    data, key, reused = prepared
    if "listfault" in op and rg is not None:
        targets0 = resolve_targets(op["targets"], _as_dict(env.functions))
        rg.arm(op["listfault"])
        try:
            res = call_compute(data, env.box.params, env.functions, targets0, op)
        finally:
            fired = rg.fired
            rg.disarm()
        ev["faults"] = {"listfault": {"fired": fired, "kind": op["listfault"]["kind"]}}
        if fired:
            ev["status"] = "iofault"
            ev["outcome"] = {"kind": "discarded", "was": res[0]}
            return 0
    targets = resolve_targets(op["targets"], _as_dict(env.functions))
    # a user who replaced a column looks at that column: request it as a target too
    watched = sorted({x["name"] for x in env.repl if x.get("name") and not x["variant"].startswith("copy:")})
    if op["form"] == "two_units":
        # ... and one who supplies a quantity in two time units looks at the others
        watched = sorted({*watched, "bruttolohn_y", "bruttolohn_d"})
    if watched:
        from gettsim import config

        targets = sorted(set(targets if targets is not None else config.DEFAULT_TARGETS) | set(watched))
    ev["data"] = key
    ev["reused"] = reused
    ev["targets"] = targets
    lines = 0
    if "abort" in op:
        inj = seams.AbortInjector(op["abort"])
        try:
            with inj:
                res = call_compute(data, env.box.params, env.functions, targets, op)
        except seams.SimAbort:
            ev["faults"] = {"abort": {"k": op["abort"], "fired": True, "lines": inj.count}}
            raise
        ev["faults"] = {"abort": {"k": op["abort"], "fired": False, "lines": inj.count}}
        lines = inj.count
    else:
        res = call_compute(data, env.box.params, env.functions, targets, op)
    ev["outcome"] = outcome_of_compute(res)
    if res[0] == "exc":
        ev["exc_text"] = res[2][:160]
    ev["ref"] = {
        "kind": "COMPUTE",
        "date": env.box.date,
        "reforms": [{"group": rf["group"], "path": rf["path"], "new": rf["new"]} for rf in env.box.reforms],
        "repl": [dict(x) for x in env.repl],
        "pop": resolve_pop_recipe(history["pops"], op["pop"]),
        "form": op["form"],
        "targets": targets,
        "rounding": op["rounding"],
        "debug": op["debug"],
        "cms": op["cms"],
        "agg": op.get("agg"),
        "um_fail": bool(op.get("um_fail")),
        "np_strict": bool(history["env"].get("np_strict")),
    }
    return lines


def _do_sweep(op, envs, pops, data_objs, history, ev, set_up):
    """Abort one kind of call at a regular grid of line events (a crash-point sweep).
    One uninterrupted execution measures the length (and is compared like a normal call);
    the purity snapshot around the whole op and the calls that follow in the history
    detect residue left by *any* of the abort points."""
    env = envs.get(op["e"])
    if env is None:
        ev["status"] = "skipped"
        return
    what = op["what"]
    armed = fired = 0
    tl = 0  # line events executed under the injector in this op
    if what == "REWRITE":
        from _gettsim.vectorization import make_vectorizable

        fdict = _as_dict(env.functions)
        name = userlib.resolve_name(fdict, op["frac"])
        f = fdict[name]
        ev["resolved"] = name
        with seams.AbortInjector(None) as cnt:
            try:
                make_vectorizable(f, "numpy")
            except Exception:  # noqa: BLE001
                pass
        L = cnt.count
        for k in range(1 + op["offset"], L + 1, op["stride"]):
            armed += 1
            inj = seams.AbortInjector(k)
            try:
                with inj:
                    make_vectorizable(f, "numpy")
            except seams.SimAbort:
                fired += 1
            except Exception:  # noqa: BLE001
                pass
            tl += inj.count
    elif what == "COMPUTE":
        cop = op["compute"]
        data, key, reused = op["_prepared"]
        targets = resolve_targets(cop["targets"], _as_dict(env.functions))
        with seams.AbortInjector(None) as cnt:
            res = call_compute(data, env.box.params, env.functions, targets, cop)
        L = cnt.count
        ev["outcome"] = outcome_of_compute(res)
        ev["ref"] = _compute_ref(env, history, cop, targets)
        ks = list(range(1 + op["offset"], L + 1, op["stride"]))[: op["max_aborts"]]
        for k in ks:
            armed += 1
            inj = seams.AbortInjector(k)
            try:
                with inj:
                    call_compute(data, env.box.params, env.functions, targets, cop)
            except seams.SimAbort:
                fired += 1
            tl += inj.count
    else:  # SETUP
        with seams.AbortInjector(None) as cnt:
            try:
                params, functions = set_up(op["date"])
                ev["outcome"] = outcome_of_setup(params, functions)
            except Exception as e:  # noqa: BLE001
                ev["outcome"] = {"kind": "exc", "cls": type(e).__name__}
        ev["ref"] = {"kind": "SETUP", "date": op["date"]}
        L = cnt.count
        ks = list(range(1 + op["offset"], L + 1, op["stride"]))[: op["max_aborts"]]
        for k in ks:
            armed += 1
            inj = seams.AbortInjector(k)
            try:
                with inj:
                    set_up(op["date"])
            except seams.SimAbort:
                fired += 1
            except Exception:  # noqa: BLE001
                pass
            tl += inj.count
    ev["faults"] = {"abort_sweep": {"what": what, "armed": armed, "fired": fired, "lines": L, "lines_executed": tl + L}}


def _compute_ref(env, history, op, targets):
    return {
        "kind": "COMPUTE",
        "date": env.box.date,
        "reforms": [{"group": rf["group"], "path": rf["path"], "new": rf["new"]} for rf in env.box.reforms],
        "repl": [dict(x) for x in env.repl],
        "pop": resolve_pop_recipe(history["pops"], op["pop"]),
        "form": op["form"],
        "targets": targets,
        "rounding": op["rounding"],
        "debug": op["debug"],
        "cms": op["cms"],
        "agg": op.get("agg"),
        "um_fail": bool(op.get("um_fail")),
        "np_strict": bool(history["env"].get("np_strict")),
    }


def _do_baddata(op, envs, data, ev):
    env = envs.get(op["e"])
    if env is None:
        ev["status"] = "skipped"
        return
    from sim.compare import run_call

    res = run_call(data, env.box.params, env.functions)
    ev["outcome"] = {"kind": res[0], "cls": res[1] if res[0] == "exc" else None}


# =========================================================================== reference


def run_reference(ref: dict) -> dict:
    """Execute one comparable call alone in this (forked or cold, pristine) process."""
    from gettsim import set_up_policy_environment

    warnings.simplefilter("ignore")
    _apply_caller_config(bool(ref.get("np_strict")))
    try:
        params, functions = set_up_policy_environment(ref["date"])
    except Exception as e:  # noqa: BLE001
        return _ref_setup_failed(ref, e)
    return _reference_after_setup(ref, params, functions)


def _ref_setup_failed(ref, e):
    if ref["kind"] == "SETUP":
        return {"kind": "exc", "cls": type(e).__name__}
    return {"kind": "ref_setup_failed", "cls": type(e).__name__}


def run_references_batch(date: str, refs: list) -> list:
    """Several references that share a date: this pristine process performs the set-up
    once and forks one grandchild per reference, so every reference still runs in a
    process whose whole history is  import gettsim; set_up(date); <the call>."""
    import os
    import pickle

    from gettsim import set_up_policy_environment

    warnings.simplefilter("ignore")
    _apply_caller_config(bool(refs and refs[0].get("np_strict")))  # the driver batches by (date, configuration)
    try:
        params, functions = set_up_policy_environment(date)
    except Exception as e:  # noqa: BLE001
        return [_ref_setup_failed(r, e) for r in refs]
    out = []
    for ref in refs:
        if ref["kind"] == "SETUP":
            out.append(outcome_of_setup(params, functions))
            continue
        rfd, wfd = os.pipe()
        pid = os.fork()
        if pid == 0:
            os.close(rfd)
            try:
                res = _reference_after_setup(ref, params, functions)
            except BaseException as e:  # noqa: BLE001
                res = {"kind": "ref_crashed", "cls": type(e).__name__, "text": str(e)[:300]}
            with os.fdopen(wfd, "wb") as f:
                f.write(pickle.dumps(res))
            os._exit(0)
        os.close(wfd)
        with os.fdopen(rfd, "rb") as f:
            data = f.read()
        os.waitpid(pid, 0)
        res = pickle.loads(data) if data else {"kind": "ref_crashed", "cls": "NoData"}
        if res.get("kind") == "ref_crashed":
            raise RuntimeError(f"reference grandchild crashed: {res}")
        out.append(res)
    return out


def _apply_replacements(functions, repl):
    fa = functions
    for rp in repl:
        variant = rp["variant"]
        for pre in ("copy:", "derived:"):
            if variant.startswith(pre):
                variant = pre + rp["name"]
        if isinstance(fa, dict):
            fa, _ = userlib.apply_replacement(fa, variant, rp["mode"])
        else:
            fa, _ = _replace_in_list(fa, {"variant": variant})
    return fa


def _apply_caller_config(strict: bool):
    if strict:
        import numpy as np

        np.seterr(divide="raise", invalid="raise", over="raise")


def _reference_after_setup(ref: dict, params, functions) -> dict:
    if ref["kind"] == "SETUP":
        return outcome_of_setup(params, functions)
    if ref["kind"] == "REWRITE":
        return do_rewrite(ref["op"], _as_dict(_apply_replacements(functions, ref.get("repl", []))))
    for rf in ref["reforms"]:
        try:
            userlib._set(params[rf["group"]], tuple(rf["path"]), rf["new"])
        except Exception as e:  # noqa: BLE001
            return {"kind": "ref_reform_failed", "cls": type(e).__name__, "at": [rf["group"], rf["path"]]}
    fa = _apply_replacements(functions, ref["repl"])
    pop = build_population(ref["pop"])
    data = make_data(pop, ref["form"])
    res = call_compute(data, params, fa, ref["targets"], ref)
    out = outcome_of_compute(res)
    if res[0] == "exc":
        out["text"] = res[2][:160]
    return out
