"""Fault seams: trace-based abort, parameter-file read faults, directory order.

All seams are installed only inside a session child and delegate to the real
implementation unless a fault is armed.  Nothing here reads a clock or draws random
numbers: every decision is an argument.
"""
from __future__ import annotations

import errno
import os
import pathlib
import sys

GETTSIM_DIR = None


def _gettsim_dir() -> str:
    global GETTSIM_DIR  # noqa: PLW0603
    if GETTSIM_DIR is None:
        import _gettsim

        GETTSIM_DIR = os.path.dirname(os.path.realpath(_gettsim.__file__))
    return GETTSIM_DIR


class SimAbort(BaseException):
    """Injected 'user interrupt'.  BaseException so that no `except Exception` in the
    code under test can swallow it (like KeyboardInterrupt)."""


class AbortInjector:
    """Raise SimAbort at the k-th 'line' event executed in a frame of /repo/src/_gettsim.

    ``count_only`` measures the number of line events of a call (calibration / evidence).
    """

    def __init__(self, k: int | None):
        self.k = k
        self.count = 0
        self.fired_at = None
        self.root = _gettsim_dir()

    def _local(self, frame, event, arg):
        if event == "line":
            self.count += 1
            if self.k is not None and self.count == self.k:
                self.fired_at = f"{os.path.relpath(frame.f_code.co_filename, self.root)}:{frame.f_lineno}"
                raise SimAbort(self.fired_at)
        return self._local

    def _global(self, frame, event, arg):
        fn = frame.f_code.co_filename
        if fn.startswith(self.root):
            return self._local
        return None

    def __enter__(self):
        sys.settrace(self._global)
        return self

    def __exit__(self, *exc):
        sys.settrace(None)
        return False


class ReadFaults:
    """Wrap pathlib.Path.read_text: the n-th read (1-based) of a file below
    _gettsim/parameters fails with OSError(errno) or returns a prefix cut at a line
    boundary.  n=None -> count only."""

    def __init__(self, n: int | None, kind: str = "EIO", cut: float = 0.5):
        self.n = n
        self.kind = kind
        self.cut = cut
        self.count = 0
        self.fired = None
        self._orig = None
        self.root = os.path.join(_gettsim_dir(), "parameters")

    def __enter__(self):
        self._orig = orig = pathlib.Path.read_text
        me = self

        def read_text(self, *a, **kw):  # noqa: ANN001
            if str(self).startswith(me.root):
                me.count += 1
                if me.n is not None and me.count == me.n:
                    me.fired = f"{self.name}#{me.count}:{me.kind}"
                    if me.kind == "SHORT":
                        text = orig(self, *a, **kw)
                        lines = text.splitlines(keepends=True)
                        keep = max(1, int(len(lines) * me.cut))
                        return "".join(lines[:keep])
                    code = getattr(errno, me.kind)
                    raise OSError(code, os.strerror(code), str(self))
            return orig(self, *a, **kw)

        pathlib.Path.read_text = read_text
        return self

    def __exit__(self, *exc):
        pathlib.Path.read_text = self._orig
        return False


class RglobOrder:
    """Wrap pathlib.Path.rglob: the result is returned as a list permuted by a seeded
    shuffle (file-system enumeration order is unspecified)."""

    def __init__(self, seed: int | None):
        self.seed = seed
        self.calls = 0
        self._orig = None

    def __enter__(self):
        if self.seed is None:
            return self
        import random

        self._orig = orig = pathlib.Path.rglob
        me = self

        def rglob(self, *a, **kw):  # noqa: ANN001
            res = sorted(orig(self, *a, **kw))
            me.calls += 1
            random.Random(f"{me.seed}:{self}:{a}").shuffle(res)
            return res

        pathlib.Path.rglob = rglob
        return self

    def __exit__(self, *exc):
        if self._orig is not None:
            pathlib.Path.rglob = self._orig
        return False
