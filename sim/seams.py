"""Fault seams: trace-based abort, parameter-file read faults, directory order.

All seams are installed only inside a session child and delegate to the real
implementation unless a fault is armed.  Nothing here reads a clock or draws random
numbers: every decision is an argument.
"""
from __future__ import annotations

import errno
import os
import pathlib
import sys

GETTSIM_DIR = None


def _gettsim_dir() -> str:
    global GETTSIM_DIR  # noqa: PLW0603
    if GETTSIM_DIR is None:
        import _gettsim

        GETTSIM_DIR = os.path.dirname(os.path.realpath(_gettsim.__file__))
    return GETTSIM_DIR


class SimAbort(BaseException):
    """Injected 'user interrupt'.  BaseException so that no `except Exception` in the
    code under test can swallow it (like KeyboardInterrupt)."""


class AbortInjector:
    """Raise SimAbort at the k-th 'line' event executed in code of /repo/src/_gettsim.

    Implemented with sys.monitoring (PEP 669): LINE events are enabled only for code
    objects whose file lies under the package, everything else runs at full speed.
    ``k=None`` only counts line events (calibration / evidence).  Code that is already
    on the stack when the injector is entered is not instrumented (never the case here:
    the injector wraps a whole API call).
    """

    def __init__(self, k: int | None):
        self.k = k
        self.count = 0
        self.fired_at = None
        self.root = _gettsim_dir()
        self._codes = []

    def __enter__(self):
        mon = sys.monitoring
        self._tool = mon.DEBUGGER_ID
        mon.use_tool_id(self._tool, "simabort")
        me = self

        def on_start(code, offset):
            if code.co_filename.startswith(me.root):
                mon.set_local_events(me._tool, code, mon.events.LINE)
                me._codes.append(code)
            return mon.DISABLE

        def on_line(code, lineno):
            me.count += 1
            if me.k is not None and me.count == me.k:
                me.fired_at = f"{os.path.relpath(code.co_filename, me.root)}:{lineno}"
                raise SimAbort(me.fired_at)

        mon.register_callback(self._tool, mon.events.PY_START, on_start)
        mon.register_callback(self._tool, mon.events.LINE, on_line)
        mon.set_events(self._tool, mon.events.PY_START)
        return self

    def __exit__(self, *exc):
        mon = sys.monitoring
        mon.set_events(self._tool, 0)
        for c in self._codes:
            mon.set_local_events(self._tool, c, 0)
        self._codes = []
        mon.register_callback(self._tool, mon.events.PY_START, None)
        mon.register_callback(self._tool, mon.events.LINE, None)
        mon.free_tool_id(self._tool)
        mon.restart_events()
        return False


class ReadFaults:
    """Wrap pathlib.Path.read_text: the n-th read (1-based) of a file below
    _gettsim/parameters fails with OSError(errno) or returns a prefix cut at a line
    boundary.  n=None -> count only."""

    def __init__(self, n: int | None, kind: str = "EIO", cut: float = 0.5):
        self.n = n
        self.kind = kind
        self.cut = cut
        self.count = 0
        self.fired = None
        self._orig = None
        self.root = os.path.join(_gettsim_dir(), "parameters")

    def __enter__(self):
        self._orig = orig = pathlib.Path.read_text
        me = self

        def read_text(self, *a, **kw):  # noqa: ANN001
            if str(self).startswith(me.root):
                me.count += 1
                if me.n is not None and me.count == me.n:
                    me.fired = f"{self.name}#{me.count}:{me.kind}"
                    if me.kind == "SHORT":
                        text = orig(self, *a, **kw)
                        lines = text.splitlines(keepends=True)
                        keep = max(1, int(len(lines) * me.cut))
                        return "".join(lines[:keep])
                    code = getattr(errno, me.kind)
                    raise OSError(code, os.strerror(code), str(self))
            return orig(self, *a, **kw)

        pathlib.Path.read_text = read_text
        return self

    def __exit__(self, *exc):
        pathlib.Path.read_text = self._orig
        return False


class RglobOrder:
    """Wrap pathlib.Path.rglob: the result is returned as a list permuted by a seeded
    shuffle (file-system enumeration order is unspecified).  Optionally the n-th call
    (1-based, counted while `armed`) fails: kind 'LIST_EIO' raises OSError, kind
    'LIST_SHORT' silently returns a truncated listing (what Python 3.12's rglob does when
    scandir fails underneath)."""

    def __init__(self, seed: int | None):
        self.seed = seed
        self.calls = 0
        self._orig = None
        self.fault = None  # {"n": int, "kind": str, "cut": float}
        self.fault_calls = 0
        self.fired = None

    def arm(self, fault):
        self.fault = fault
        self.fault_calls = 0
        self.fired = None

    def disarm(self):
        self.fault = None

    def __enter__(self):
        import random

        self._orig = orig = pathlib.Path.rglob
        me = self

        def rglob(self, *a, **kw):  # noqa: ANN001
            res = sorted(orig(self, *a, **kw))
            me.calls += 1
            if me.seed is not None:
                random.Random(f"{me.seed}:{self}:{a}").shuffle(res)
            if me.fault is not None:
                me.fault_calls += 1
                if me.fault_calls == me.fault["n"]:
                    me.fired = f"{self.name}#{me.fault_calls}:{me.fault['kind']}"
                    if me.fault["kind"] == "LIST_EIO":
                        raise OSError(errno.EIO, os.strerror(errno.EIO), str(self))
                    res = res[: int(len(res) * me.fault.get("cut", 0.5))]
            return res

        pathlib.Path.rglob = rglob
        return self

    def __exit__(self, *exc):
        if self._orig is not None:
            pathlib.Path.rglob = self._orig
        return False
