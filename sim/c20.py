"""C20 - malformed input is rejected, type coercion is lossless (child side).

Fault classes are exactly those the statement enumerates (DESIGN 4.4):
F1 p_id column missing            F2 duplicate p_id
F3 spouse/partner/parent pointer to a missing person   F4 ... to oneself
F5 household-level input varying within a household
F6 spouses with contradictory joint-assessment flags
F7 required column missing        F8 duplicated column name
F9 value not convertible to the documented type without change
"""
from __future__ import annotations

import random
import warnings

from sim import compare, popgen

BIG = 2**53 + 1


def foreign_keys() -> list:
    from gettsim import config

    return list(config.FOREIGN_KEYS)


# ------------------------------------------------------------------ enumeration


def enumerate_faults(cols: dict, roots: list, types: dict) -> list:
    """The complete single-fault space of one base population."""
    n = len(cols["p_id"])
    faults = [{"cls": "F1"}]
    pid = cols["p_id"]
    for i in range(n):
        # large tables: not all n*(n-1) pairs, but neighbours and the two ends
        js = range(n) if n <= 40 else sorted({(i + 1) % n, (i - 1) % n, 0, n - 1, (i + n // 2) % n})
        for j in js:
            if i != j:
                faults.append({"cls": "F2", "row": i, "from": j})
    fk = [c for c in foreign_keys() if c in cols]
    mx = max(pid)
    for c in fk:
        for i in range(n):
            for val in ("max+1", "large", "-2", "min-1", "gap", "zero"):
                if val == "min-1" and min(pid) < 1:
                    continue
                if val == "zero" and 0 in pid:
                    continue
                if val == "gap" and _gap_value(pid) is None:
                    continue
                faults.append({"cls": "F3", "col": c, "row": i, "val": val})
            faults.append({"cls": "F4", "col": c, "row": i})
    hh = cols["hh_id"]
    sizes = {h: hh.count(h) for h in set(hh)}
    for c in cols:
        if c.endswith("_hh") and c in types:
            for i in range(n):
                if sizes[hh[i]] >= 2:
                    for d in ("up", "down", "nan") if types[c] is float else ("up", "down") if types[c] is not bool else ("flip",):
                        faults.append({"cls": "F5", "col": c, "row": i, "dir": d})
    for i in range(n):
        if cols["p_id_ehepartner"][i] >= 0:
            faults.append({"cls": "F6", "row": i})
    for c in roots:
        if c in cols and c != "p_id":
            faults.append({"cls": "F7", "col": c})
    for c in roots:
        if c in cols:
            faults.append({"cls": "F8", "col": c})
    for c in roots:
        t = types.get(c)
        if c not in cols or t is None:
            continue
        if t is int:
            for i in range(n):
                for kind in ("frac", "near_plus", "near_minus", "nan", "huge", "neg_huge", "inf"):
                    faults.append({"cls": "F9", "col": c, "row": i, "kind": kind})
            faults.append({"cls": "F9", "col": c, "kind": "object"})
        elif t is bool:
            for i in range(n):
                for kind in ("int2", "int_neg", "float_half", "float_nan"):
                    faults.append({"cls": "F9", "col": c, "row": i, "kind": kind})
            faults.append({"cls": "F9", "col": c, "kind": "object"})
        elif t is float:
            for i in range(n):
                for kind in ("bigint", "bigint_neg"):
                    faults.append({"cls": "F9", "col": c, "row": i, "kind": kind})
            faults.append({"cls": "F9", "col": c, "kind": "bool_for_float"})
            faults.append({"cls": "F9", "col": c, "kind": "object"})
    return faults


def _gap_value(pid):
    """An unused identifier strictly between min(p_id) and max(p_id), if any."""
    used = set(int(x) for x in pid)
    lo, hi = min(used), max(used)
    for v in range(lo + 1, hi):
        if v not in used:
            return v
    return None


def apply_fault(df, fault: dict, types: dict):
    """Return a corrupted copy of the frame.  (None if the fault is not applicable.)"""
    import numpy as np
    import pandas as pd

    df = df.copy()
    cls = fault["cls"]
    n = len(df)
    if cls == "F1":
        return df.drop(columns=["p_id"])
    if cls == "F2":
        df.iloc[fault["row"], df.columns.get_loc("p_id")] = df["p_id"].iloc[fault["from"]]
        return df
    if cls in ("F3", "F4"):
        c, i = fault["col"], fault["row"]
        if cls == "F4":
            v = int(df["p_id"].iloc[i])
        else:
            if fault["val"] == "gap":
                v = _gap_value(df["p_id"].tolist())
                if v is None:
                    return None
            elif fault["val"] == "min-1":
                v = int(df["p_id"].min()) - 1
                if v < 0:
                    return None
            elif fault["val"] == "zero":
                v = 0
                if 0 in set(df["p_id"]):
                    return None
            else:
                v = {"max+1": int(df["p_id"].max()) + 1, "large": 987654, "-2": -2}[fault["val"]]
                while fault["val"] != "-2" and v in set(df["p_id"]):
                    v += 1
        df.iloc[i, df.columns.get_loc(c)] = v
        return df
    if cls == "F5":
        c, i = fault["col"], fault["row"]
        cur = df[c].iloc[i]
        if fault["dir"] == "nan":
            new = float("nan")  # one member's value is missing while the others carry a number
        elif fault["dir"] == "flip":
            new = not bool(cur)
        elif types[c] is int:
            new = int(cur) + (1 if fault["dir"] == "up" else -1)
        else:
            new = float(cur) + (0.25 if fault["dir"] == "up" else -0.25)
        df.iloc[i, df.columns.get_loc(c)] = new
        return df
    if cls == "F6":
        i = fault["row"]
        df.iloc[i, df.columns.get_loc("gemeinsam_veranlagt")] = not bool(df["gemeinsam_veranlagt"].iloc[i])
        return df
    if cls == "F7":
        return df.drop(columns=[fault["col"]])
    if cls == "F8":
        return pd.concat([df, df[[fault["col"]]]], axis=1)
    if cls == "F9":
        c, kind = fault["col"], fault["kind"]
        i = fault.get("row", 0)
        v = df[c].to_numpy()
        if kind == "object":
            df[c] = df[c].astype(object)
        elif kind == "bool_for_float":
            df[c] = v != 0
        elif kind in ("huge", "neg_huge", "inf"):
            # integral (or infinite) float values outside the int64 range
            x = v.astype(np.float64)
            x[i] = {"huge": 2.0**63, "neg_huge": -1e19, "inf": np.inf}[kind]
            df[c] = x
        elif kind in ("frac", "near_plus", "near_minus", "nan"):
            x = v.astype(np.float64)
            x[i] = {"frac": x[i] + 0.5, "near_plus": x[i] + 1e-9 * max(1.0, abs(x[i])), "near_minus": x[i] - 1e-9 * max(1.0, abs(x[i])), "nan": np.nan}[kind]
            if kind.startswith("near") and x[i] == np.round(x[i]):
                x[i] = x[i] + (1e-6 if kind == "near_plus" else -1e-6)
            df[c] = x
        elif kind in ("int2", "int_neg"):
            x = v.astype(np.int64)
            x[i] = 2 if kind == "int2" else -1
            df[c] = x
        elif kind in ("float_half", "float_nan"):
            x = v.astype(np.float64)
            x[i] = 0.5 if kind == "float_half" else np.nan
            df[c] = x
        elif kind in ("bigint", "bigint_neg"):
            # an int64 column is only possible if every other value is integral
            if not np.all(v == np.round(v)) or not np.all(np.abs(v) < 2**52):
                return None
            x = v.astype(np.int64)
            x[i] = BIG if kind == "bigint" else -BIG
            df[c] = x
        return df
    raise ValueError(cls)


def lossless_variants(cols: dict, roots: list, types: dict, r: random.Random, k_single: int, k_multi: int) -> list:
    """Dtype variants that GETTSIM's coercion accepts and that change no value."""
    import numpy as np

    out = []
    elig = []
    for c in roots:
        t = types.get(c)
        if c not in cols or t is None:
            continue
        v = cols[c]
        if t is float and all(float(x).is_integer() and abs(x) < 2**52 for x in v):
            elig.append((c, "int64"))
            if all(abs(x) < 2**31 for x in v):
                elig.append((c, "int32"))
            if all(0 <= x < 2**16 for x in v):
                elig.append((c, "uint16"))
        elif t is int:
            elig.append((c, "float64"))
            if all(abs(x) < 2**24 for x in v):
                elig.append((c, "float32"))  # every integer below 2**24 is exact in float32
        elif t is bool:
            elig.append((c, "int64"))
            elig.append((c, "float64"))
            elig.append((c, "uint8"))
            elig.append((c, "float32"))
    r.shuffle(elig)
    for c, dt in elig[:k_single]:
        out.append({"cols": {c: dt}})
    for _ in range(k_multi):
        if len(elig) >= 2:
            pick = {}
            for c, dt in r.sample(elig, r.randint(2, min(12, len(elig)))):
                pick.setdefault(c, dt)
            out.append({"cols": pick})
    if elig:
        allc = {}
        for c, dt in elig:
            allc.setdefault(c, dt)
        out.append({"cols": allc})
    _ = np
    return out


def override_variants(base_frame, annotated: dict, r: random.Random, k: int) -> list:
    """A computed column supplied as data (it then overrides its rule).  Its documented
    type is the rule's *return annotation* (not the dtype the rule happens to produce):
    the reference supplies the column in the annotated type (no conversion), the variant
    in another, losslessly convertible dtype (conversion expected and to be announced)."""
    import numpy as np

    out = []
    cand = []
    for c in base_frame.columns:
        t = annotated.get(c)
        if c.endswith("_id") or t is None:
            continue
        v = base_frame[c].to_numpy()
        if v.dtype.kind not in "fiub":
            continue
        x = v.astype(np.float64)
        if not (np.all(np.isfinite(x)) and np.all(x == np.round(x)) and np.all(np.abs(x) < 2**31)):
            continue
        if t in (float, "float"):
            cand.append((c, "float64", r.choice(["int64", "int32"])))
        elif t in (int, "int"):
            cand.append((c, "int64", "float64"))
        elif t in (bool, "bool") and set(np.unique(x).tolist()) <= {0.0, 1.0}:
            cand.append((c, "bool", r.choice(["int64", "float64"])))
    r.shuffle(cand)
    for c, native, dt in cand[:k]:
        out.append({"cols": {}, "override": {c: dt}, "override_native": {c: native}, "override_values": {c: base_frame[c].to_numpy().astype(np.float64).tolist()}})
    return out


def apply_variant(df, variant):
    import numpy as np

    df = df.copy()
    for c, dt in variant["cols"].items():
        df[c] = df[c].to_numpy().astype(getattr(np, dt))
    for c, dt in (variant.get("override") or {}).items():
        df[c] = np.asarray(variant["override_values"][c]).astype(getattr(np, dt))
    return df


# ------------------------------------------------------------------ oracle


def judge_fault(df, fault, params, functions, types, form="frame", live=None):
    """form: 'frame' (fresh corrupted copy), 'dict' (dict of Series), or 'inplace': the
    corruption is written into a long-lived DataFrame object that was simulated
    successfully before (a fault at a particular point of a sequence of calls) and is
    undone afterwards."""
    bad = apply_fault(df, fault, types)
    if bad is None:
        return "inapplicable", None
    if form == "inplace" and live is not None and list(bad.columns) == list(df.columns) and len(bad) == len(df):
        changed = [c for c in df.columns if str(bad[c].dtype) != str(df[c].dtype) or not bad[c].equals(df[c])]
        for c in changed:
            live[c] = bad[c].to_numpy()
        try:
            res = compare.run_call(live, params, functions)
        finally:
            for c in changed:
                live[c] = df[c].to_numpy()
        return ("rejected", res[1]) if res[0] == "exc" else ("ACCEPTED", None)
    data = bad
    if form == "dict" and fault["cls"] != "F8":
        data = {c: bad[c] for c in bad.columns}
    elif form == "dict_idx" and fault["cls"] != "F8":
        import pandas as pd

        idx = pd.Index([f"r{(7 * i) % len(bad)}_{i}" for i in range(len(bad))])
        data = {c: pd.Series(bad[c].to_numpy(), index=idx, name=c) for c in bad.columns}
    res = compare.run_call(data, params, functions)
    if res[0] == "exc":
        return "rejected", res[1]
    return "ACCEPTED", None


def judge_variant(df, variant, base_res, params, functions):
    var = apply_variant(df, variant)
    if variant.get("override"):
        # reference: the same computed columns supplied as data in their own dtype
        ref_df = df.copy()
        import numpy as np

        for c in variant["override"]:
            ref_df[c] = np.asarray(variant["override_values"][c]).astype(getattr(np, variant["override_native"][c]))
        base_res = compare.run_call(ref_df, params, functions)
        if base_res[0] == "exc":
            return "ok", None  # overriding this column is not possible at all - nothing to compare
    res = compare.run_call(var, params, functions)
    if res[0] == "exc":
        return "raised", f"{res[1]}: {res[2][:200]}"
    out, warns = res[1], res[2]
    ref = base_res[1]
    if list(out.columns) != list(ref.columns) or len(out) != len(ref):
        return "changed", "shape/columns"
    import numpy as np

    for i, c in enumerate(ref.columns):
        a, b = ref.iloc[:, i].to_numpy(), out.iloc[:, i].to_numpy()
        if a.dtype != b.dtype or not np.array_equal(a, b, equal_nan=a.dtype.kind == "f"):
            return "changed", c
    texts = [m for k, m in warns if k == "UserWarning"]
    missing = [c for c in [*variant["cols"], *(variant.get("override") or {})] if not any(f" - {c} from " in t for t in texts)]
    if missing:
        return "silent", missing[:5]
    return "ok", None


# ------------------------------------------------------------------ exploration


def _base_population(r, year, stat, rows, params, functions, types, crowd=0):
    for _ in range(12):
        if crowd:
            pop = popgen.generate_crowd(r.randrange(1 << 30), year, crowd, stat_values=stat)
            df = popgen.to_frame(pop, types=types)
            res = compare.run_call(df, params, functions)
            if res[0] == "frame":
                return pop, df, res
            continue
        pop = popgen.generate(r.randrange(1 << 30), year, min_rows=rows[0], max_rows=r.randint(*rows), stat_values=stat, id_mode=r.choice(["dense", "offset", "sparse_sorted", "sparse_shuffled"]))
        df = popgen.to_frame(pop, types=types)
        res = compare.run_call(df, params, functions)
        if res[0] == "frame":
            return pop, df, res
    return None, None, None


def explore(run_seed: int, cfg: dict) -> dict:
    from gettsim import set_up_policy_environment

    warnings.simplefilter("ignore")
    r = random.Random(run_seed)
    date = popgen.draw_date(r, cfg["dates"])
    out = {"date": date, "setup": "ok", "evaluated": 0, "by_class": {}, "exc_hist": {}, "violations": [], "distinct": [], "pairs": 0, "variants": {"ok": 0}, "space": 0, "samples": [], "inapplicable": 0, "exhaustive": bool(cfg.get("exhaustive"))}
    try:
        params, functions = set_up_policy_environment(date)
    except Exception as e:  # noqa: BLE001
        out["setup"] = type(e).__name__
        return out
    types = popgen.input_types()
    stat = popgen.stat_values_from_params(params)
    crowd = 0
    if not cfg.get("exhaustive") and r.random() < cfg.get("crowd_p", 0.0):
        crowd = r.choice([270, 1100])  # checks must not depend on the size of the table or the position of the faulty row in it
    out["crowd"] = crowd
    pop, df, base = _base_population(r, int(date[:4]), stat, cfg.get("rows", (2, 7)), params, functions, types, crowd=crowd)
    if pop is None:
        out["setup"] = "no computable base population"
        return out
    graph, _ = compare.capture_graph(df, params, functions)
    roots = graph["roots"] if graph else list(df.columns)
    cols = pop["cols"]
    sig = popgen.structure_signature(pop)
    out["n"] = popgen.n_rows(pop)
    out["sig"] = sig
    space = enumerate_faults(cols, roots, types)
    out["space"] = len(space)
    if cfg.get("exhaustive"):
        chosen = space
    else:
        # stratified sample: every class, then uniformly
        byc = {}
        for f in space:
            byc.setdefault(f["cls"] + ":" + str(f.get("kind", f.get("val", f.get("dir", "")))), []).append(f)
        chosen = []
        for k in sorted(byc):
            chosen += r.sample(byc[k], min(len(byc[k]), cfg.get("per_class", 3)))
        chosen += r.sample(space, min(len(space), cfg.get("extra", 10)))
    pid = cols["p_id"]
    roles = _row_roles(cols)
    live = df.copy()
    compare.run_call(live, params, functions)  # the long-lived table has been simulated once
    for f in chosen:
        u = r.random()
        form = "frame"
        if not cfg.get("exhaustive"):
            form = "dict" if u < 0.15 else "dict_idx" if u < 0.25 else "inplace" if u < 0.45 and f["cls"] not in ("F1", "F7", "F8") else "frame"
        verdict, exc = judge_fault(df, f, params, functions, types, form, live)
        if verdict == "inapplicable":
            out["inapplicable"] += 1
            continue
        out["evaluated"] += 1
        ck = f["cls"] + (":" + f["kind"] if "kind" in f else "")
        out["by_class"][ck] = out["by_class"].get(ck, 0) + 1
        out["distinct"].append((ck, f.get("col", ""), roles[f["row"]] if "row" in f else "-", sig))
        if verdict == "rejected":
            hk = f"{f['cls']}->{exc}"
            out["exc_hist"][hk] = out["exc_hist"].get(hk, 0) + 1
            if len(out["samples"]) < 2:
                out["samples"].append({"date": date, "fault": f, "p_id_of_row": pid[f["row"]] if "row" in f else None, "form": form, "outcome": f"raised {exc}"})
        else:
            out["violations"].append(_minimise_fault({"date": date, "cols": cols, "faults": [f], "form": form, "kind": "accepted"}, params, functions, types))
    if cfg.get("exhaustive"):
        for f in space:
            if f["cls"] in ("F2", "F3", "F4", "F5", "F6"):
                verdict, exc = judge_fault(df, f, params, functions, types, "inplace", live)
                if verdict == "inapplicable":
                    continue
                out["evaluated"] += 1
                out["by_class"][f["cls"] + ":inplace"] = out["by_class"].get(f["cls"] + ":inplace", 0) + 1
                if verdict != "rejected":
                    out["violations"].append(_minimise_fault({"date": date, "cols": cols, "faults": [f], "form": "inplace", "kind": "accepted"}, params, functions, types))
    # pairs of faults (both must be individually applicable)
    for _ in range(cfg.get("pairs", 4)):
        f1, f2 = r.sample(space, 2)
        if f1["cls"] in ("F1", "F7", "F8") and f2.get("col") == f1.get("col"):
            continue
        bad = apply_fault(df, f1, types)
        bad2 = None
        if bad is not None:
            try:
                bad2 = apply_fault(bad, f2, types)
            except Exception:  # noqa: BLE001  (second fault no longer applicable, e.g. column gone)
                bad2 = None
        if bad2 is None:
            continue
        res = compare.run_call(bad2, params, functions)
        out["pairs"] += 1
        out["evaluated"] += 1
        if res[0] != "exc":
            out["violations"].append(_minimise_fault({"date": date, "cols": cols, "faults": [f1, f2], "form": "frame", "kind": "accepted"}, params, functions, types))
    # lossless variants
    variants = lossless_variants(cols, roots, types, r, cfg.get("var_single", 4), cfg.get("var_multi", 2))
    if graph and cfg.get("var_override", 2):
        from gettsim import config

        full = compare.run_call(df, params, functions, targets=graph["order"])
        if full[0] == "frame":
            # only policy rules with a return annotation have a documented type the data is converted to;
            # derived columns (automatic sums, time-unit variants) are used as supplied
            annotated = {n: fn.__annotations__["return"] for n, fn in functions.items() if "return" in getattr(fn, "__annotations__", {})} if isinstance(functions, dict) else {}
            inter = full[1][[c for c in full[1].columns if c not in config.DEFAULT_TARGETS and c in annotated]]
            variants += override_variants(inter, annotated, r, cfg.get("var_override", 2))
    if variants:
        variants.append({**variants[0], "repeat": True})  # the same converted table again: announced again?
    for v in variants:
        verdict, info = judge_variant(df, v, base, params, functions)
        out["evaluated"] += 1
        out["variants"][verdict] = out["variants"].get(verdict, 0) + 1
        if verdict != "ok":
            out["violations"].append({"date": date, "cols": cols, "variant": v, "kind": "variant_" + verdict, "info": info, "key": {"kind": "variant_" + verdict, "what": info if isinstance(info, str) else "warning"}})
        elif len(out["samples"]) < 3:
            out["samples"].append({"date": date, "lossless_variant": v, "outcome": "bit-identical results, conversion announced by a UserWarning"})
    return out


def _row_roles(cols) -> list:
    n = len(cols["p_id"])
    parents = {p for c in ("p_id_elternteil_1", "p_id_elternteil_2") for p in cols[c] if p >= 0}
    roles = []
    hh = cols["hh_id"]
    for i in range(n):
        parts = []
        if i == 0:
            parts.append("first")
        elif i == n - 1:
            parts.append("last")
        if cols["p_id_ehepartner"][i] >= 0:
            parts.append("spouse")
        elif cols["p_id_einstandspartner"][i] >= 0:
            parts.append("partner")
        if cols["p_id_elternteil_1"][i] >= 0 or cols["p_id_elternteil_2"][i] >= 0:
            parts.append("child")
        if cols["p_id"][i] in parents:
            parts.append("parent")
        if hh.count(hh[i]) == 1:
            parts.append("alone")
        roles.append("+".join(parts) or "member")
    return roles


def _minimise_fault(case, params, functions, types):
    """Shrink an accepted-fault case: fewer faults, fewer persons."""
    def accepted(c):
        df = popgen.to_frame({"cols": c["cols"]}, types=types)
        if c.get("form") == "inplace":
            live = df.copy()
            compare.run_call(live, params, functions)
            try:
                return judge_fault(df, c["faults"][0], params, functions, types, "inplace", live)[0] == "ACCEPTED"
            except Exception:  # noqa: BLE001
                return False
        bad = df
        for f in c["faults"]:
            bad = apply_fault(bad, f, types)
            if bad is None:
                return False
        data = {k: bad[k] for k in bad.columns} if c.get("form") in ("dict", "dict_idx") and all(f["cls"] != "F8" for f in c["faults"]) else bad
        try:
            return compare.run_call(data, params, functions)[0] != "exc"
        except Exception:  # noqa: BLE001
            return False

    cur = dict(case)
    if len(cur["faults"]) > 1:
        for f in list(cur["faults"]):
            c = {**cur, "faults": [f]}
            if accepted(c):
                cur = c
                break
    if cur.get("form") in ("dict", "dict_idx", "inplace") and accepted({**cur, "form": "frame"}):
        cur = {**cur, "form": "frame"}
    # drop persons not touched by a fault row
    from sim.c01 import drop_rows

    changed = True
    budget = 40
    while changed and budget > 0:
        changed = False
        n = len(cur["cols"]["p_id"])
        protected = {f.get("row") for f in cur["faults"]} | {f.get("from") for f in cur["faults"]}
        for i in range(n - 1, -1, -1):
            if i in protected or n <= 1:
                continue
            budget -= 1
            cols2, _ = drop_rows(cur["cols"], {"order": list(range(n))}, {i})
            faults2 = [{**f, **({"row": f["row"] - (f["row"] > i)} if "row" in f else {}), **({"from": f["from"] - (f["from"] > i)} if "from" in f else {})} for f in cur["faults"]]
            c = {**cur, "cols": cols2, "faults": faults2}
            if accepted(c):
                cur = c
                changed = True
                break
    f0 = cur["faults"][0]
    cur["key"] = {"kind": "accepted", "form": cur.get("form", "frame") if cur.get("form") == "inplace" else "fresh", "cls": f0["cls"], "fault_kind": f0.get("kind", f0.get("val", f0.get("dir", ""))), "n_faults": len(cur["faults"])}
    return cur


def replay_case(case: dict) -> dict:
    from gettsim import set_up_policy_environment

    warnings.simplefilter("ignore")
    params, functions = set_up_policy_environment(case["date"])
    types = popgen.input_types()
    df = popgen.to_frame({"cols": case["cols"]}, types=types)
    if case["kind"] == "accepted" and case.get("form") == "inplace":
        live = df.copy()
        first = compare.run_call(live, params, functions)
        verdict, exc = judge_fault(df, case["faults"][0], params, functions, types, "inplace", live)
        return {"violated": verdict == "ACCEPTED", "outcome": f"first call {first[0]}; faulted call {verdict} {exc or ''}"}
    if case["kind"] == "accepted":
        bad = df
        for f in case["faults"]:
            bad = apply_fault(bad, f, types)
        data = {k: bad[k] for k in bad.columns} if case.get("form") in ("dict", "dict_idx") and all(f["cls"] != "F8" for f in case["faults"]) else bad
        res = compare.run_call(data, params, functions)
        return {"violated": res[0] != "exc", "outcome": res[0] if res[0] != "exc" else f"{res[1]}: {res[2][:200]}"}
    base = compare.run_call(df, params, functions)
    # every call must be value-neutral and announce its conversions - also a repeated one
    outcomes = []
    for _ in range(2):
        verdict, info = judge_variant(df, case["variant"], base, params, functions)
        outcomes.append(f"{verdict}: {info}")
        if verdict != "ok":
            return {"violated": True, "outcome": "; ".join(outcomes)}
    return {"violated": False, "outcome": "; ".join(outcomes)}
