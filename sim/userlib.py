"""User-side material for histories: replacement functions and parameter-reform recipes.

Imported by zygotes; defines plain Python functions only (no GETTSIM API call at import).
"""
from __future__ import annotations

import types


# --- replacement functions (the two tutorial reforms + simple ones) -------------------


def kindergeld_m(kindergeld_anz_ansprüche: int, kindergeld_params: dict) -> float:
    """Tutorial-style reform: doubled Kindergeld (simplified: flat first-child rate)."""
    rates = kindergeld_params.get("kindergeld", {})
    first = rates.get(1, 250.0) if isinstance(rates, dict) else float(rates)
    return 2.0 * first * kindergeld_anz_ansprüche


def arbeitsl_geld_2_m_bg(arbeitsl_geld_2_vor_vorrang_m_bg: float) -> float:
    """Tutorial-style reform: Arbeitslosengeld II without the priority check."""
    return arbeitsl_geld_2_vor_vorrang_m_bg


def const_elterngeld_m() -> float:
    return 123.25


def soli_zero(eink_st_y_sn: float) -> float:
    return 0.0 * eink_st_y_sn


REPLACEMENTS = {
    # variant -> (target name in the functions dict, function)
    "double_kindergeld": ("kindergeld_m", kindergeld_m),
    "alg2_no_priority": ("arbeitsl_geld_2_m_bg", arbeitsl_geld_2_m_bg),
    "const_elterngeld": ("elterngeld_m", const_elterngeld_m),
    "soli_zero": ("soli_st_y_sn", soli_zero),
}


# user-provided aggregation specs (GEP 4 syntax) for COMPUTE calls
AGG_SPECS = {
    "none": ({}, {}, []),
    "group_sum": ({"verif_lohn_hh": {"source_col": "bruttolohn_m", "aggr": "sum"}}, {}, ["verif_lohn_hh"]),
    "group_max": ({"verif_alter_max_fg": {"source_col": "alter", "aggr": "max"}}, {}, ["verif_alter_max_fg"]),
    "pid_sum": ({}, {"verif_kg_anspr": {"p_id_to_aggregate_by": "p_id_kindergeld_empf", "source_col": "kindergeld_anspruch", "aggr": "sum"}}, ["verif_kg_anspr"]),
    # overrides an internal by-p_id spec (claims counted for the Erziehungsgeld recipient instead)
    "pid_override": ({}, {"kindergeld_anz_ansprüche": {"p_id_to_aggregate_by": "p_id_erziehgeld_empf", "source_col": "kindergeld_anspruch", "aggr": "sum"}}, ["kindergeld_m"]),
    # overrides an internal by-group spec
    "group_override": ({"anz_kinder_mit_kindergeld_fg": {"source_col": "kind", "aggr": "sum"}}, {}, ["anz_kinder_mit_kindergeld_fg"]),
    # invalid specs: the call must fail and leave nothing behind
    "pid_invalid": ({}, {"verif_bad": {"p_id_to_aggregate_by": "p_id_kindergeld_empf", "source_col": "kindergeld_anspruch"}}, ["kindergeld_m"]),
    "group_invalid": ({"verif_bad_hh": {"aggr": "sum"}}, {}, ["kindergeld_m"]),
}


def derived_sum_columns(functions: dict) -> list:
    """Names that GETTSIM derives automatically as group sums of an existing function:
    arguments of some function that carry a group suffix, are not functions themselves,
    while the name without the suffix is."""
    import inspect

    from gettsim import config

    sufs = tuple("_" + g for g in config.SUPPORTED_GROUPINGS)
    out = set()
    for f in functions.values():
        try:
            args = list(inspect.signature(f).parameters)
        except (TypeError, ValueError):
            continue
        for a in args:
            if a.endswith(sufs) and a not in functions:
                base = a
                for sfx in sufs:
                    if base.endswith(sfx):
                        base = base[: -len(sfx)]
                        break
                if base in functions:
                    out.add((a, base))
    return sorted(out)


def make_override(name: str, source: str):
    """A user function that replaces the derived column `name` (twice its own source)."""
    ns = {}
    exec(f"def {name}({source}: float) -> float:\n    return 2.0 * {source}\n", ns)  # noqa: S102
    return ns[name]


def identical_copy(f):
    """A new function object with the same code, globals and attributes."""
    g = types.FunctionType(f.__code__, f.__globals__, f.__name__, f.__defaults__, f.__closure__)
    g.__dict__.update({k: (dict(v) if isinstance(v, dict) else v) for k, v in f.__dict__.items()})
    g.__annotations__ = dict(f.__annotations__)
    g.__kwdefaults__ = f.__kwdefaults__
    g.__qualname__ = f.__qualname__
    g.__module__ = f.__module__
    g.__doc__ = f.__doc__
    return g


def apply_replacement(functions: dict, variant: str, mode: str):
    """Return the `functions` argument for a COMPUTE after replacement `variant`.
    mode 'dict': new dict with the entry replaced;  'list': [functions, f]."""
    if variant.startswith("copy:"):
        name = resolve_name(functions, variant[5:])
        f = identical_copy(functions[name])
        return ({**functions, name: f} if mode == "dict" else [functions, {name: f}]), name
    if variant.startswith("module_"):
        # the user passes a whole module: by path, by import string or as module object
        from pathlib import Path

        import sim.user_module as um

        src = {"module_path": Path(um.__file__), "module_import": "sim.user_module", "module_object": um}[variant]
        base = functions if isinstance(functions, list) else [functions]
        return [*base, src], "verif_extra_column"  # the function defined *after* the point where the module may fail
    if variant.startswith("derived:"):
        name, f = resolve_derived(functions, variant[8:])
        if name is None:
            return functions, None
        return ({**functions, name: f} if mode == "dict" else [functions, {name: f}]), name
    name, f = REPLACEMENTS[variant]
    if mode == "dict":
        return {**functions, name: f}, name
    return [functions, {name: f}], name


def resolve_derived(functions: dict, key):
    cands = derived_sum_columns(functions)
    if not cands:
        return None, None
    for a, base in cands:
        if a == key:
            return a, make_override(a, base)
    try:
        a, base = cands[int(float(key) * len(cands)) % len(cands)]
    except ValueError:
        return None, None
    return a, make_override(a, base)


def resolve_name(functions: dict, frac) -> str:
    names = sorted(functions)
    if isinstance(frac, str) and frac in functions:
        return frac
    i = int(float(frac) * len(names)) % len(names)
    return names[i]


# --- parameter reforms -----------------------------------------------------------------


def scalar_leaves(params: dict, group: str) -> list:
    """Sorted list of key paths (tuples) to numeric scalar leaves of params[group]."""
    out = []

    def walk(o, path):
        if isinstance(o, dict):
            for k in o:
                if k in ("rounding",):
                    continue
                walk(o[k], path + (k,))
        elif isinstance(o, bool):
            return
        elif isinstance(o, (int, float)):
            out.append(path)

    walk(params.get(group, {}), ())
    return sorted(out, key=repr)


def resolve_reform(params: dict, reform: dict):
    """reform = {"group_frac": x, "leaf_frac": y, "op": "mul"|"add"|"set", "x": v}
    -> (group, path) resolved against this params dict (deterministic given its keys)."""
    groups = sorted(g for g in params if isinstance(params[g], dict) and scalar_leaves(params, g))
    if not groups:
        return None
    if "group" in reform and reform["group"] in groups:
        g = reform["group"]
    else:
        g = groups[int(reform["group_frac"] * len(groups)) % len(groups)]
    leaves = scalar_leaves(params, g)
    if "path" in reform and tuple(reform["path"]) in leaves:
        return g, tuple(reform["path"])
    return g, leaves[int(reform["leaf_frac"] * len(leaves)) % len(leaves)]


def _get(d, path):
    for k in path:
        d = d[k]
    return d


def _set(d, path, v):
    for k in path[:-1]:
        d = d[k]
    d[path[-1]] = v


def apply_reform(params: dict, reform: dict):
    """Mutate params in place.  Returns (group, path, old, new) or None."""
    res = resolve_reform(params, reform)
    if res is None:
        return None
    g, path = res
    old = _get(params[g], path)
    if reform["op"] == "mul":
        new = old * reform["x"]
    elif reform["op"] == "add":
        new = old + reform["x"]
    else:
        new = reform["x"]
    if isinstance(old, int) and not isinstance(old, bool) and float(new).is_integer():
        new = int(new)
    _set(params[g], path, new)
    return g, path, old, new


def undo_reform(params: dict, applied):
    g, path, old, _new = applied
    _set(params[g], path, old)


def user_rules() -> dict:
    """User policy functions added to the environment in C01/C02 runs: a rule from a module
    with string annotations (`from __future__ import annotations`) that returns an integer
    literal in one branch."""
    import sim.user_module as um

    return {"verif_extra_column": um.verif_extra_column}


def order_test_specs() -> dict:
    """User aggregation specs passed with every C01/C02 call so that all seven aggregation
    kinds - also over a datetime column and over bool/int columns - are exercised under
    permuted, unsorted and non-contiguous group ids (targets are picked up automatically:
    every spec becomes a node of the graph)."""
    g = {
        "verif_gebdat_max_hh": {"source_col": "geburtsdatum", "aggr": "max"},
        "verif_gebdat_min_fg": {"source_col": "geburtsdatum", "aggr": "min"},
        "verif_alter_min_bg": {"source_col": "alter", "aggr": "min"},
        "verif_alter_max_eg": {"source_col": "alter", "aggr": "max"},
        "verif_lohn_mean_hh": {"source_col": "bruttolohn_m", "aggr": "mean"},
        "verif_lohn_sum_sn": {"source_col": "bruttolohn_m", "aggr": "sum"},
        "verif_kind_any_fg": {"source_col": "kind", "aggr": "any"},
        "verif_kind_all_ehe": {"source_col": "kind", "aggr": "all"},
        "verif_count_wthh": {"aggr": "count"},
    }
    p = {
        "verif_betreuung_sum": {"p_id_to_aggregate_by": "p_id_betreuungsk_träger", "source_col": "betreuungskost_m", "aggr": "sum"},
        "verif_kind_count": {"p_id_to_aggregate_by": "p_id_elternteil_1", "source_col": "kind", "aggr": "sum"},
    }
    return {"aggregate_by_group_specs": g, "aggregate_by_p_id_specs": p}


ORDER_TEST_TARGETS = [
    "verif_gebdat_max_hh", "verif_gebdat_min_fg", "verif_alter_min_bg", "verif_alter_max_eg", "verif_lohn_mean_hh",
    "verif_lohn_sum_sn", "verif_kind_any_fg", "verif_kind_all_ehe", "verif_count_wthh", "verif_betreuung_sum", "verif_kind_count",
]
