"""C20 driver: fault injection into the input table (enumerated classes, every position)."""
from __future__ import annotations

import json
import random
import time

from sim.core import COMPONENTS, EXIT_OK, EXIT_VIOLATION, REPO_SRC, VERIF, H, HarnessError, digest, jdump, log, write_evidence
from sim.engine import Engine, dump_digests, load_known, match_known, write_replay
from sim.popgen import date_pool

PROP = "C20"
TIERS = {
    "quick": {"runs": 32, "exhaustive_runs": 0, "per_class": 2, "extra": 8, "pairs": 4, "var_single": 3, "var_multi": 2, "rows": (2, 7), "selftest": 4},
    "thorough": {"runs": 400, "exhaustive_runs": 24, "per_class": 4, "extra": 20, "pairs": 6, "var_single": 6, "var_multi": 3, "rows": (2, 8), "selftest": 16},
}


def replay_file(path: str) -> int:
    from sim.zygote import cold_call

    data = json.loads(open(path).read())
    rep = cold_call("sim.c20", "replay_case", data["case"], hashseed=data.get("hashseed", 12345))
    if rep["violated"]:
        print(f"VIOLATION property={PROP} replay={path}")
        print("  " + jdump({"key": data.get("violation_key"), "outcome": rep["outcome"]})[:1000])
        return EXIT_VIOLATION
    print(f"replay of {path}: not reproduced ({rep['outcome']})")
    return EXIT_OK


def run_check(tier: str, seed: int, runs: int | None = None, parallel: int | None = None) -> int:
    t0 = time.monotonic()
    T = dict(TIERS[tier])
    if runs:
        T["runs"] = runs
    dates = date_pool(REPO_SRC)
    cfg = {"dates": dates, **{k: T[k] for k in ("per_class", "extra", "pairs", "var_single", "var_multi", "rows")}, "crowd_p": 0.12}
    xcfg = {**cfg, "exhaustive": True, "rows": (2, 6), "pairs": 0}
    engine = Engine(seed, parallel)
    open_known, _ = load_known(PROP)
    known_lines, viol_lines = [], []
    try:
        for f in open_known:
            rp = f.get("replay")
            if rp:
                case = json.loads((VERIF / rp).read_text())["case"]
                rep = engine.cold("sim.c20", "replay_case", case)
                if rep["violated"]:
                    known_lines.append(f"KNOWN-FINDING: property={PROP} {f['what']}")
                else:
                    log(f"note: known finding {f.get('id')} no longer reproduces")

        def one(slot, i):
            if i < T["exhaustive_runs"]:
                res = slot.S.call("sim.c20", "explore", H(seed, PROP, "x", i), xcfg, timeout_s=3600)
            else:
                res = slot.S.call("sim.c20", "explore", H(seed, PROP, i), cfg, timeout_s=1800)
            res["log_digest"] = digest(res)
            return res

        total = T["runs"] + T["exhaustive_runs"]
        results = engine.map_runs(one, range(total), progress=max(8, total // 8))
        dump_digests(PROP, results)
        cand = [i for i in range(total) if i >= T["exhaustive_runs"]]
        st = sorted(random.Random(H(seed, PROP, "selftest")).sample(cand, min(T["selftest"], len(cand))))
        again = engine.map_runs(lambda slot, j: one(engine.slots[(st[j] + 5) % len(engine.slots)], st[j])["log_digest"], range(len(st)))
        mism = [st[j] for j in again if again[j] != results[st[j]]["log_digest"]]
        if mism:
            raise HarnessError(f"determinism self-test failed for run indices {mism}")

        S = {"evaluated": 0, "by_class": {}, "exc_hist": {}, "pairs": 0, "variants": {}, "distinct": set(), "dates": set(), "setup_failed": 0, "space": 0, "exh_space": 0, "exh_pops": 0, "inapplicable": 0, "bases": 0, "crowd_bases": 0}
        samples, found = [], []
        for i in sorted(results):
            r = results[i]
            S["dates"].add(r["date"])
            if r["setup"] != "ok":
                S["setup_failed"] += 1
                continue
            S["bases"] += 1
            S["crowd_bases"] += 1 if r.get("crowd") else 0
            S["evaluated"] += r["evaluated"]
            S["pairs"] += r["pairs"]
            S["space"] += r["space"]
            S["inapplicable"] += r["inapplicable"]
            if r["exhaustive"]:
                S["exh_pops"] += 1
                S["exh_space"] += r["space"]
            for k, v in r["by_class"].items():
                S["by_class"][k] = S["by_class"].get(k, 0) + v
            for k, v in r["exc_hist"].items():
                S["exc_hist"][k] = S["exc_hist"].get(k, 0) + v
            for k, v in r["variants"].items():
                S["variants"][k] = S["variants"].get(k, 0) + v
            S["distinct"].update(tuple(x) for x in r["distinct"])
            for s in r["samples"]:
                if len(samples) < 6:
                    samples.append({"run_index": i, **s})
            for v in r["violations"]:
                found.append((i, v))

        exit_code = EXIT_OK
        seen = set()
        unreproduced = []
        for i, v in found:
            key = v["key"]
            if jdump(key) in seen:
                continue
            seen.add(jdump(key))
            kf = match_known(open_known, key)
            if kf is not None:
                line = f"KNOWN-FINDING: property={PROP} {kf['what']}"
                if line not in known_lines:
                    known_lines.append(line)
                continue
            case = {k: v.get(k) for k in ("date", "cols", "faults", "form", "kind", "variant") if v.get(k) is not None}
            confirms = [engine.cold("sim.c20", "replay_case", case, hashseed=engine.slots[i % len(engine.slots)].S.hashseed)["violated"] for _ in range(3)]
            if not all(confirms):
                unreproduced.append(f"run {i} {key}: {confirms}")
                continue
            tag = f"{i}-{len(viol_lines)}"
            path = write_replay(PROP, seed, tag, {"hashseed": engine.slots[i % len(engine.slots)].S.hashseed, "case": case, "violation_key": key, "info": v.get("info"), "replay_cmd": f"./check replay replays/{PROP}-{seed}-{tag}.json"})
            viol_lines.append(f"VIOLATION property={PROP} replay={path}")
            log(f"  violation: {jdump(key)} faults={jdump(case.get('faults'))[:300]} info={v.get('info')}")
            exit_code = EXIT_VIOLATION
        from sim.c01_driver import _unreproduced_verdict

        _unreproduced_verdict(unreproduced, viol_lines)
    finally:
        engine.close()

    wall = time.monotonic() - t0
    coverage = {
        "evaluations": S["evaluated"],
        "distinct_nontrivial": len(S["distinct"]),
        "rule": "evaluations = faulted calls + fault-pair calls + lossless-variant calls; every fault is eligible by construction (it touches a column that is a root "
        "of the default-target graph, or a key/pointer column the checks read); distinct = distinct (fault class and kind, column, role of the row in its "
        "household, structure signature of the base population)",
        "samples": samples,
        "exhaustive": bool(T["exhaustive_runs"]),
        "exhaustive_scope": f"complete single-fault space of {S['exh_pops']} base populations ({S['exh_space']} faults)" if T["exhaustive_runs"] else "none in this tier (stratified sample of every class and kind per base population)",
        "base_populations": S["bases"],
        "base_populations_with_270_or_1100_rows": S["crowd_bases"],
        "single_fault_space_of_the_bases": S["space"],
        "single_faults_by_class": dict(sorted(S["by_class"].items())),
        "fault_pairs": S["pairs"],
        "inapplicable_faults_skipped": S["inapplicable"],
        "exception_class_by_fault_class": dict(sorted(S["exc_hist"].items())),
        "lossless_variants": S["variants"],
        "policy_dates_drawn": len(S["dates"]),
        "setup_failed_runs": S["setup_failed"],
        "simulated_time": "none (fault injection into the untrusted input channel of a single call)",
        "calls_per_hour": round(S["evaluated"] / wall * 3600),
        "selftest_runs_repeated": len(st),
        "parallel": engine.parallel,
        "components": COMPONENTS,
        "repo_tree": engine.tree,
        "known_findings_reported": known_lines,
    }
    write_evidence(PROP, tier, seed, "fault_enumeration", coverage,
                   ["any Exception raised by compute_taxes_and_transfers counts as rejection (class histogram in the evidence)",
                    "fault classes are exactly those enumerated in the statement; NaN/inf in float inputs, digit strings, nullable and narrower dtypes are outside it (DESIGN 4.4)",
                    "lossless variants are restricted to conversions GETTSIM's coercion path performs (int64<->float64, {0,1}->bool)"],
                   wall, len(viol_lines))
    for line in known_lines:
        print(line)
    for line in viol_lines:
        print(line)
    print(f"C20 {tier}: {S['bases']} base populations, {S['evaluated']} calls ({S['pairs']} pairs, {sum(S['variants'].values())} variants), {len(viol_lines)} violations, {wall:.0f}s")
    return exit_code
