"""C01 - results do not depend on row order or index labels (child side)."""
from __future__ import annotations

import itertools
import random
import warnings

from sim import compare, popgen, userlib

INDEX_KINDS = ["default", "default", "reversed", "shuffled", "strings", "floats", "duplicated", "multi", "offset"]
FORMS = ["frame", "frame", "frame", "dict"]


# ------------------------------------------------------------------ tables


def make_index(kind: str, n: int, seed: int):
    import pandas as pd

    r = random.Random(f"idx:{seed}:{kind}:{n}")
    if kind == "default":
        return None
    if kind == "reversed":
        return pd.Index(list(range(n - 1, -1, -1)))
    if kind == "shuffled":
        v = list(range(n))
        r.shuffle(v)
        return pd.Index(v)
    if kind == "strings":
        return pd.Index([f"row{r.randrange(10**6)}_{i}" for i in range(n)])
    if kind == "floats":
        return pd.Index([r.random() * 100 for _ in range(n)])
    if kind == "duplicated":
        return pd.Index([i // 2 for i in range(n)])
    if kind == "offset":
        return pd.RangeIndex(1000, 1000 + 3 * n, 3)
    if kind == "multi":
        return pd.MultiIndex.from_arrays([[i % 2 for i in range(n)], [f"k{i}" for i in range(n)]], names=["a", "b"])
    raise ValueError(kind)


def convertible_dtypes(df, types, seed):
    """Losslessly convertible dtypes for a seeded subset of columns (int64 for integral
    float inputs, float64 for int inputs, 0/1 ints for bool inputs): the coercion path
    must not disturb the correspondence between rows and results either."""
    import numpy as np

    rr = random.Random(f"conv:{seed}")
    df = df.copy()
    for c in df.columns:
        if rr.random() < 0.6:
            continue
        t = types.get(c)
        v = df[c].to_numpy()
        if t is float and np.all(np.isfinite(v)) and np.all(v == np.round(v)) and np.all(np.abs(v) < 2**40):
            df[c] = v.astype(np.int64)
        elif t is int:
            df[c] = v.astype(np.float64)
        elif t is bool:
            df[c] = v.astype(np.int64)
    return df


def make_table(cols: dict, order, index_kind: str, form: str, seed: int, types, conv=False):
    import pandas as pd

    df = popgen.to_frame({"cols": cols}, order=order, types=types)
    if conv:
        df = convertible_dtypes(df, types, seed)
    idx = make_index(index_kind, len(df), seed)
    if idx is not None:
        df.index = idx
    if form == "dict":
        return {c: pd.Series(df[c].to_numpy(), index=df.index, name=c) for c in df.columns}
    return df


def run_variant(cols, variant, params, functions, targets, types):
    data = make_table(cols, variant["order"], variant.get("index", "default"), variant.get("form", "frame"), variant.get("iseed", 0), types, conv=bool(variant.get("conv")))
    return compare.run_call(data, params, functions, targets=targets, debug=bool(variant.get("debug", False)))


# ------------------------------------------------------------------ orders


def special_orders(cols, r: random.Random, n_random: int) -> list:
    """[(family, order)] - order is a list of canonical row positions."""
    n = len(cols["p_id"])
    ident = list(range(n))
    out = []
    for k in range(1, n):
        out.append(("rotation", ident[k:] + ident[:k]))
    if n > 2:
        out.append(("reversed", ident[::-1]))
    pos = {p: i for i, p in enumerate(cols["p_id"])}
    # children before their parents
    is_child = [cols["p_id_elternteil_1"][i] >= 0 or cols["p_id_elternteil_2"][i] >= 0 for i in range(n)]
    if any(is_child) and not all(is_child):
        o = [i for i in ident if is_child[i]] + [i for i in ident if not is_child[i]]
        if o != ident:
            out.append(("children_first", o))
    # swap partners (partner reached before / after)
    o = list(ident)
    swapped = False
    for i in ident:
        p = cols["p_id_einstandspartner"][i]
        if p >= 0 and pos[p] > i and o[i] == i and o[pos[p]] == pos[p]:
            o[i], o[pos[p]] = o[pos[p]], o[i]
            swapped = True
    if swapped:
        out.append(("partners_swapped", o))
    # households interleaved (round-robin over households)
    byhh = {}
    for i in ident:
        byhh.setdefault(cols["hh_id"][i], []).append(i)
    if len(byhh) > 1:
        o = [x for tup in itertools.zip_longest(*byhh.values()) for x in tup if x is not None]
        if o != ident:
            out.append(("households_interleaved", o))
    for _ in range(n_random if n > 2 else 0):
        o = list(ident)
        r.shuffle(o)
        if o != ident:
            out.append(("random", o))
    # de-duplicate, keep first family name
    seen = set()
    res = []
    for fam, o in out:
        t = tuple(o)
        if t not in seen and o != ident:
            seen.add(t)
            res.append((fam, o))
    return res


def order_probes(cols, order) -> dict:
    """Mechanism probes: did this order put rows in a 'dangerous' sequence?"""
    rank = {pos: k for k, pos in enumerate(order)}
    pos = {p: i for i, p in enumerate(cols["p_id"])}
    n = len(order)
    pr = {"child_before_parent": False, "kg_target_after_source": False, "partner_with_children_second": False, "first_row_zero_wage": False}
    nchild = {}
    for i in range(n):
        for c in ("p_id_elternteil_1", "p_id_elternteil_2"):
            v = cols[c][i]
            if v >= 0:
                nchild[v] = nchild.get(v, 0) + 1
                if rank[i] < rank[pos[v]]:
                    pr["child_before_parent"] = True
        v = cols["p_id_kindergeld_empf"][i]
        if v >= 0 and rank[pos[v]] > rank[i]:
            pr["kg_target_after_source"] = True
    for i in range(n):
        p = cols["p_id_einstandspartner"][i]
        if p >= 0 and nchild.get(cols["p_id"][i], 0) > 0 and nchild.get(p, 0) == 0 and rank[pos[p]] < rank[i]:
            pr["partner_with_children_second"] = True
    pr["first_row_zero_wage"] = cols["bruttolohn_m"][order[0]] == 0
    return pr


# ------------------------------------------------------------------ evaluating one case


def evaluate(cols, variant, params, functions, graph, types, canon=None, targets=None, isolate=True):
    """Run canonical + variant and compare.  Returns a report dict.
    report["violating"] = list of first-divergent nodes (or ['<exception>'])."""
    import numpy as np

    n = len(cols["p_id"])
    pids = list(cols["p_id"])
    if targets == "default":
        targets = None  # the API's own default target list
    else:
        targets = targets or graph["order"]
    id_nodes = compare.endogenous_id_nodes()
    if canon is None:
        canon = run_variant(cols, {"order": list(range(n))}, params, functions, targets, types)
    res = run_variant(cols, variant, params, functions, targets, types)
    rep = {"canon_kind": canon[0], "kind": res[0], "violating": [], "counts": {"E": 0, "C": 0, "F": 0}, "fp_amplified": [], "unresolved": [], "detail": {}}
    if canon[0] == "exc" or res[0] == "exc":
        if canon[0] != res[0] or canon[1] != res[1]:
            rep["violating"] = ["<exception>"]
            rep["detail"]["<exception>"] = {"canonical": list(canon[:3]) if canon[0] == "exc" else "frame", "variant": list(res[:3]) if res[0] == "exc" else "frame"}
        return rep
    cf, vf = canon[1], res[1]
    if len(vf) != n or len(cf) != n:
        rep["violating"] = ["<row count>"]
        rep["detail"]["<row count>"] = {"canonical": len(cf), "variant": len(vf), "input": n}
        return rep
    order = variant["order"]
    vp = [pids[i] for i in order]
    if variant.get("debug") and "p_id" in vf.columns and list(vf["p_id"].to_numpy()) != vp:
        rep["violating"] = ["<row correspondence>"]
        rep["detail"]["<row correspondence>"] = {"input_p_id": vp, "output_p_id": [int(x) for x in vf["p_id"].to_numpy()]}
        return rep
    a = compare.align(cf, pids, pids)
    b = compare.align(vf, vp, pids)
    sub = {"order": [t for t in graph["order"] if t in a and t in b], "parents": graph["parents"]} if graph else None
    cmp_ = compare.compare_aligned(sub, a, b, pids, id_nodes)
    rep["counts"] = cmp_["counts"]
    rep["violating"] = list(cmp_["frontier"])
    for nd in cmp_["frontier"]:
        rep["detail"][nd] = cmp_["detail"].get(nd)
    rep["n_downstream"] = len(cmp_["downstream"])
    if isolate:
        for nd in cmp_["needs_isolation"]:
            verdict, info = compare.isolate(nd, graph, params, functions, a, cols, pids, [list(range(n)), order], types)
            if verdict == "agree":
                rep["fp_amplified"].append(nd)
            elif verdict == "differ":
                rep["violating"].append(nd)
                rep["detail"][nd] = {"isolated": info, "joint": cmp_["detail"].get(nd)}
            else:
                rep["unresolved"].append([nd, info])
    else:
        rep["unresolved"] = [[nd, "isolation disabled"] for nd in cmp_["needs_isolation"]]
    # dtype probe (not an oracle): columns whose dtype differs between the two orders
    rep["dtype_diff"] = sorted(c for c in a if c in b and str(np.asarray(a[c]).dtype) != str(np.asarray(b[c]).dtype))
    return rep


# ------------------------------------------------------------------ exploration (one child = one date, several populations)


def explore(run_seed: int, cfg: dict) -> dict:
    from gettsim import set_up_policy_environment

    warnings.simplefilter("ignore")
    r = random.Random(run_seed)
    date = popgen.draw_date(r, cfg["dates"])
    out = {"date": date, "cases": [], "violations": [], "setup": "ok"}
    try:
        params, functions = set_up_policy_environment(date)
        functions = {**functions, **userlib.user_rules()}
        compare.DEFAULT_KW = userlib.order_test_specs()
    except Exception as e:  # noqa: BLE001
        out["setup"] = type(e).__name__
        return out
    types = popgen.input_types()
    stat = popgen.stat_values_from_params(params)
    year = int(date[:4])
    graph = None
    for k in range(cfg.get("pops_per_run", 3)):
        pop = canon = None
        for attempt in range(10):
            pseed = r.randrange(1 << 30)
            lo, hi = cfg.get("rows", (2, 14))
            cand = popgen.generate(pseed, year, min_rows=lo, max_rows=r.randint(lo, hi), stat_values=stat)
            if popgen.n_rows(cand) < 2:
                continue
            if graph is None:
                graph, _ = compare.full_graph(popgen.to_frame(cand, types=types), params, functions)
                if graph is None:
                    from gettsim import config

                    graph = {"order": sorted(config.DEFAULT_TARGETS), "parents": {}, "roots": []}
                    out["graph"] = "not captured"
            c = run_variant(cand["cols"], {"order": list(range(popgen.n_rows(cand)))}, params, functions, graph["order"], types)
            pop, canon = cand, c
            if c[0] == "frame" or r.random() < 0.1:
                break
        if pop is None:
            continue
        cols = pop["cols"]
        n = popgen.n_rows(pop)
        case = {"pop_seed": pop["seed"], "n": n, "sig": popgen.structure_signature(pop), "canon": canon[0] if canon[0] == "frame" else canon[1], "varies": popgen.varies_over_rows(pop), "orders": [], "E": 0, "C": 0, "F": 0, "fp_amplified": 0, "unresolved": 0, "dtype_diff": 0, "probes": {}, "id_mode": pop["id_mode"]}
        for fam, order in special_orders(cols, r, cfg.get("n_random", 3)):
            variant = {"order": order, "index": r.choice(INDEX_KINDS), "form": r.choice(FORMS), "iseed": r.randrange(1 << 20), "debug": r.random() < 0.2, "conv": r.random() < 0.25}
            rep = evaluate(cols, variant, params, functions, graph, types, canon=canon)
            case["orders"].append(fam)
            for kk in "ECF":
                case[kk] += rep["counts"][kk]
            case["fp_amplified"] += len(rep["fp_amplified"])
            case["unresolved"] += len(rep["unresolved"])
            case["dtype_diff"] += len(rep.get("dtype_diff", []))
            for pk, pv in order_probes(cols, order).items():
                if pv:
                    case["probes"][pk] = case["probes"].get(pk, 0) + 1
            if rep["violating"]:
                node = rep["violating"][0]
                small = shrink({"date": date, "cols": cols, "variant": variant, "node": node}, params, functions, graph, types, budget=cfg.get("shrink_budget", 120))
                small["family"] = fam
                small["original_rows"] = n
                out["violations"].append(small)
                break  # one violation per population is enough
        if not out["violations"] and n > 1:
            # the API's default target list (targets=None) takes its own path through the interface
            o = list(range(n))
            r.shuffle(o)
            if o != list(range(n)):
                variant = {"order": o, "index": r.choice(INDEX_KINDS), "form": r.choice(FORMS), "iseed": r.randrange(1 << 20), "debug": r.random() < 0.5}
                rep = evaluate(cols, variant, params, functions, graph, types, targets="default")
                case["orders"].append("default_targets")
                for kk in "ECF":
                    case[kk] += rep["counts"][kk]
                if rep["violating"]:
                    small = shrink({"date": date, "cols": cols, "variant": variant, "node": rep["violating"][0], "targets": "default"}, params, functions, graph, types, budget=cfg.get("shrink_budget", 120))
                    small["family"] = "default_targets"
                    small["original_rows"] = n
                    out["violations"].append(small)
        if cfg.get("sample") and k == 0:
            case["sample"] = {"date": date, "cols": {c: v for c, v in cols.items() if len(set(v)) > 1 or c in ("p_id", "hh_id")}, "orders": case["orders"][:]}
        out["cases"].append(case)
    if cfg.get("crowd") and graph and r.random() < cfg.get("crowd_p", 0.34):
        # size-dependent code paths: one table of a few hundred rows, a few orders
        csize, cstyle = popgen.draw_crowd(r, cfg["crowd"])
        pop = popgen.generate_crowd(r.randrange(1 << 30), year, csize, stat_values=stat, style=cstyle)
        cols = pop["cols"]
        n = popgen.n_rows(pop)
        canon = run_variant(cols, {"order": list(range(n))}, params, functions, graph["order"], types)
        case = {"pop_seed": pop["seed"], "n": n, "sig": "crowd", "canon": canon[0] if canon[0] == "frame" else canon[1], "varies": True, "orders": [], "E": 0, "C": 0, "F": 0, "fp_amplified": 0, "unresolved": 0, "dtype_diff": 0, "probes": {}, "id_mode": "crowd"}
        ident = list(range(n))
        orders = [("crowd_reversed", ident[::-1]), ("crowd_rotation", ident[n // 2 :] + ident[: n // 2])]
        o = list(ident)
        r.shuffle(o)
        orders.append(("crowd_random", o))
        for fam, order in orders:
            variant = {"order": order, "index": "default", "form": "frame", "iseed": 0, "debug": False}
            rep = evaluate(cols, variant, params, functions, graph, types, canon=canon)
            case["orders"].append(fam)
            for kk in "ECF":
                case[kk] += rep["counts"][kk]
            case["fp_amplified"] += len(rep["fp_amplified"])
            case["unresolved"] += len(rep["unresolved"])
            if rep["violating"]:
                small = shrink({"date": date, "cols": cols, "variant": variant, "node": rep["violating"][0]}, params, functions, graph, types, budget=cfg.get("shrink_budget", 120))
                small["family"] = fam
                small["original_rows"] = n
                out["violations"].append(small)
                break
        out["cases"].append(case)
    if graph:
        out["n_nodes"] = len(graph["order"])
    return out


# ------------------------------------------------------------------ exhaustive sweeps on the id targets


def id_targets(graph) -> list:
    ids = compare.endogenous_id_nodes()
    t = [n for n in graph["order"] if n in ids or n.startswith("p_id_") or n.endswith("_anz_ansprüche") or n.startswith("anz_")]
    return t


def exhaustive(run_seed: int, cfg: dict) -> dict:
    """All n! orders of small populations on the id / pointer-aggregate targets."""
    from gettsim import set_up_policy_environment

    warnings.simplefilter("ignore")
    r = random.Random(run_seed)
    date = popgen.draw_date(r, cfg["dates"])
    out = {"date": date, "pops": 0, "orders": 0, "violations": [], "sigs": [], "setup": "ok"}
    try:
        params, functions = set_up_policy_environment(date)
        functions = {**functions, **userlib.user_rules()}
        compare.DEFAULT_KW = userlib.order_test_specs()
    except Exception as e:  # noqa: BLE001
        out["setup"] = type(e).__name__
        return out
    types = popgen.input_types()
    year = int(date[:4])
    graph = None
    for _ in range(cfg.get("pops_per_run", 4)):
        pop = popgen.generate(r.randrange(1 << 30), year, min_rows=2, max_rows=r.choice([3, 4, 5, 5]), n_clusters=r.choice([1, 1, 2]))
        n = popgen.n_rows(pop)
        if n < 2 or n > 5:
            continue
        if graph is None:
            graph, _ = compare.capture_graph(popgen.to_frame(pop, types=types), params, functions)
            if graph is None:
                return out
        targets = id_targets(graph)
        cols = pop["cols"]
        canon = run_variant(cols, {"order": list(range(n))}, params, functions, targets, types)
        out["pops"] += 1
        out["sigs"].append(popgen.structure_signature(pop))
        for perm in itertools.permutations(range(n)):
            if list(perm) == list(range(n)):
                continue
            variant = {"order": list(perm)}
            rep = evaluate(cols, variant, params, functions, graph, types, canon=canon, targets=targets, isolate=False)
            out["orders"] += 1
            if rep["violating"]:
                small = shrink({"date": date, "cols": cols, "variant": variant, "node": rep["violating"][0], "targets": "ids"}, params, functions, graph, types, budget=80)
                small["family"] = "exhaustive"
                small["original_rows"] = n
                out["violations"].append(small)
                break
    return out


# ------------------------------------------------------------------ shrinking


def _fails(case, params, functions, graph, types):
    targets = id_targets(graph) if case.get("targets") == "ids" else "default" if case.get("targets") == "default" else None
    rep = evaluate(case["cols"], case["variant"], params, functions, graph, types, targets=targets, isolate=case.get("targets") != "ids")
    return case["node"] in rep["violating"], rep


def drop_rows(cols, variant, drop: set):
    """Remove canonical row positions `drop`; pointers to removed persons become -1."""
    keep = [i for i in range(len(cols["p_id"])) if i not in drop]
    gone = {cols["p_id"][i] for i in drop}
    new = {}
    for c, v in cols.items():
        vals = [v[i] for i in keep]
        if c.startswith("p_id_"):
            vals = [(-1 if x in gone else x) for x in vals]
        new[c] = vals
    remap = {old: k for k, old in enumerate(keep)}
    order = [remap[i] for i in variant["order"] if i in remap]
    return new, {**variant, "order": order}


def shrink(case, params, functions, graph, types, budget=120):
    """Greedy delta debugging on (population, order, labelling) while `node` stays in the
    first-divergent frontier."""
    spent = [0]

    def ok(cand):
        if spent[0] >= budget:
            return False
        spent[0] += 1
        try:
            f, _ = _fails(cand, params, functions, graph, types)
        except Exception:  # noqa: BLE001
            return False
        return f

    cur = {**case}
    # 0. simplest labelling / form
    for simp in ({"index": "default"}, {"form": "frame"}, {"debug": False}, {"conv": False}):
        k = next(iter(simp))
        if cur["variant"].get(k) not in (None, simp[k]):
            cand = {**cur, "variant": {**cur["variant"], **simp}}
            if ok(cand):
                cur = cand
    # 1. drop whole households, then single persons
    changed = True
    while changed and spent[0] < budget:
        changed = False
        hhs = sorted(set(cur["cols"]["hh_id"]))
        if len(hhs) > 1:
            for h in hhs:
                drop = {i for i, x in enumerate(cur["cols"]["hh_id"]) if x == h}
                cols2, var2 = drop_rows(cur["cols"], cur["variant"], drop)
                if len(cols2["p_id"]) >= 1 and ok({**cur, "cols": cols2, "variant": var2}):
                    cur = {**cur, "cols": cols2, "variant": var2}
                    changed = True
                    break
        if changed:
            continue
        for i in range(len(cur["cols"]["p_id"])):
            if len(cur["cols"]["p_id"]) <= 1:
                break
            cols2, var2 = drop_rows(cur["cols"], cur["variant"], {i})
            if ok({**cur, "cols": cols2, "variant": var2}):
                cur = {**cur, "cols": cols2, "variant": var2}
                changed = True
                break
    # 2. simpler order: a single "move one row to the front", else one transposition
    n = len(cur["cols"]["p_id"])
    ident = list(range(n))
    done = False
    for k in range(1, n):
        o = [k] + [i for i in ident if i != k]
        if o != cur["variant"]["order"] and ok({**cur, "variant": {**cur["variant"], "order": o}}):
            cur = {**cur, "variant": {**cur["variant"], "order": o}}
            done = True
            break
    if not done:
        for i in range(n - 1):
            o = list(ident)
            o[i], o[i + 1] = o[i + 1], o[i]
            if o != cur["variant"]["order"] and ok({**cur, "variant": {**cur["variant"], "order": o}}):
                cur = {**cur, "variant": {**cur["variant"], "order": o}}
                break
    # 3. reset columns to their default in blocks (binary splitting)
    resettable = [c for c in cur["cols"] if not c.startswith("p_id") and c not in ("hh_id", "alter", "geburtsjahr", "geburtsmonat", "geburtstag", "mietstufe", "steuerklasse", "jahr_renteneintr", "monat_renteneintr") and len(set(cur["cols"][c])) > 0]
    resettable = [c for c in resettable if any(v != popgen.type_default(types.get(c, float)) for v in cur["cols"][c])]

    def reset(cols, names):
        new = dict(cols)
        for c in names:
            new[c] = [popgen.type_default(types.get(c, float))] * len(cols[c])
        return new

    block = list(resettable)
    size = max(1, len(block) // 2)
    while block and spent[0] < budget:
        progressed = False
        for s in range(0, len(block), size):
            chunk = block[s : s + size]
            cand = {**cur, "cols": reset(cur["cols"], chunk)}
            if ok(cand):
                cur = cand
                block = [c for c in block if c not in chunk]
                progressed = True
                break
        if not progressed:
            if size == 1:
                break
            size = max(1, size // 2)
    _, rep = _fails(cur, params, functions, graph, types)
    cur["report"] = {"violating": rep["violating"], "detail": rep["detail"], "counts": rep["counts"], "n_downstream": rep.get("n_downstream")}
    cur["shrink_candidates"] = spent[0]
    return cur


# ------------------------------------------------------------------ replay (any process)


def replay_case(case: dict) -> dict:
    from gettsim import set_up_policy_environment

    warnings.simplefilter("ignore")
    params, functions = set_up_policy_environment(case["date"])
    functions = {**functions, **userlib.user_rules()}
    compare.DEFAULT_KW = userlib.order_test_specs()
    types = popgen.input_types()
    graph, _ = compare.full_graph(popgen.to_frame({"cols": case["cols"]}, types=types), params, functions)
    if graph is None:
        from gettsim import config

        graph = {"order": sorted(config.DEFAULT_TARGETS), "parents": {}, "roots": []}
    _, rep = _fails(case, params, functions, graph, types)
    return {"violating": rep["violating"], "detail": rep["detail"], "counts": rep["counts"]}
