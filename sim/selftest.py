"""./check selftest: determinism of the simulator itself.

Every check is run twice in fresh driver interpreters with different PYTHONHASHSEED and
different parallelism (16 vs 4 active slots); the per-run event-log digests must be
identical.  (Each check additionally repeats a sample of its runs on every invocation.)
"""
from __future__ import annotations

import json
import os
import subprocess
import tempfile
import time

from sim.core import EXIT_HARNESS, EXIT_OK, PY, VERIF

RUNS = {"quick": {"C14": 24, "C01": 16, "C02": 16, "C20": 16}, "thorough": {"C14": 160, "C01": 96, "C02": 96, "C20": 96}}


def main(seed: int, tier: str) -> int:
    t0 = time.monotonic()
    bad = []
    summary = {}
    for prop, n in RUNS[tier].items():
        outs = []
        for hs, par in (("11", "16"), ("4242", "4")):
            fd, path = tempfile.mkstemp(prefix=f"selftest-{prop}-", suffix=".json", dir=str(VERIF / "replays") if (VERIF / "replays").exists() else None)
            os.close(fd)
            env = dict(os.environ, PYTHONHASHSEED=hs, VERIF_PARALLEL=par, VERIF_DIGESTS=path, VERIF_SEED=str(seed), VERIF_EVIDENCE_DIR=str(VERIF / "replays"))
            p = subprocess.run([PY, str(VERIF / "check"), prop, "--runs", str(n), "--tier", "quick"], env=env, cwd=str(VERIF), capture_output=True, text=True, check=False)
            if p.returncode not in (0, 1):
                print(p.stdout[-2000:], p.stderr[-2000:])
                print(f"selftest: {prop} driver exited {p.returncode}")
                return EXIT_HARNESS
            outs.append(json.loads(open(path).read())["digests"])
            os.unlink(path)
        a, b = outs
        diff = sorted(k for k in set(a) | set(b) if a.get(k) != b.get(k))
        summary[prop] = {"runs": len(a), "differing": diff}
        print(f"selftest {prop}: {len(a)} runs executed twice (hash seeds 11/4242, parallel 16/4): {len(diff)} differing digests")
        if diff:
            bad.append((prop, diff))
    print(f"selftest finished in {time.monotonic() - t0:.0f}s: {'DETERMINISTIC' if not bad else 'NON-DETERMINISTIC ' + str(bad)}")
    return EXIT_OK if not bad else EXIT_HARNESS
