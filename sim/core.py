"""Shared plumbing: seeds, canonical encoding, digests, evidence, exit codes.

Nothing in this module calls the GETTSIM API.  It may be imported by the driver,
by zygotes and by cold interpreters alike.
"""
from __future__ import annotations

import datetime
import hashlib
import json
import os
import struct
import sys
from pathlib import Path

VERIF = Path(__file__).resolve().parent.parent
REPO = Path(os.environ.get("VERIF_REPO", "/repo"))
REPO_SRC = REPO / "src"
PY = "/venv/bin/python"

EXIT_OK, EXIT_VIOLATION, EXIT_HARNESS = 0, 1, 2

N_SLOTS = 16  # logical slots; fixed so that the explored set never depends on cores

THREAD_ENV = {
    "OMP_NUM_THREADS": "1",
    "OPENBLAS_NUM_THREADS": "1",
    "MKL_NUM_THREADS": "1",
    "NUMEXPR_NUM_THREADS": "1",
}


class HarnessError(Exception):
    """Something in the machinery (not in GETTSIM) went wrong: exit 2, never 0/1."""


# --------------------------------------------------------------------------- seeds


def H(*parts) -> int:
    """Deterministic 63-bit integer from arbitrary printable parts."""
    h = hashlib.sha256(("\x1f".join(str(p) for p in parts)).encode()).digest()
    return int.from_bytes(h[:8], "big") >> 1


def verif_seed() -> int:
    try:
        return int(os.environ.get("VERIF_SEED", "0"))
    except ValueError:
        return H("VERIF_SEED", os.environ.get("VERIF_SEED"))


def child_env(hashseed: int) -> dict:
    env = dict(os.environ)
    env.update(THREAD_ENV)
    env["PYTHONHASHSEED"] = str(hashseed % 4294967295)
    env["PYTHONPATH"] = f"{REPO_SRC}:{VERIF}"
    env["PYTHONDONTWRITEBYTECODE"] = "1"
    env.pop("PYTHONSTARTUP", None)
    return env


# --------------------------------------------------------------------------- repo


def repo_tree_hash() -> str:
    """SHA-256 over every file under /repo/src/_gettsim (path + bytes)."""
    h = hashlib.sha256()
    root = REPO_SRC / "_gettsim"
    for p in sorted(root.rglob("*")):
        if p.is_file() and "__pycache__" not in p.parts and p.suffix in (
            ".py",
            ".yaml",
            ".yml",
        ):
            h.update(str(p.relative_to(root)).encode())
            h.update(b"\0")
            h.update(p.read_bytes())
            h.update(b"\0")
    return h.hexdigest()[:16]


# --------------------------------------------------------------------------- canon


def _canon_float(x: float) -> str:
    # bit pattern, so -0.0 != 0.0 and every NaN payload is kept
    return "f:" + struct.pack(">d", float(x)).hex()


def canon(obj, _depth=0):
    """Canonical, JSON-able description of a (possibly nested) Python value.

    Used for purity snapshots and for comparing values across processes.  Floats are
    encoded by bit pattern, arrays by dtype/shape/bytes digest, mappings keep their
    *iteration order* (a changed order is an observable change of a caller's dict).
    Function objects are described by qualified name, code hash and attributes.
    """
    import numpy as np

    if _depth > 60:
        return "<deep>"
    if obj is None or isinstance(obj, (bool, str)):
        return obj
    if isinstance(obj, (int,)) and not isinstance(obj, bool):
        return "i:" + str(obj)
    if isinstance(obj, float):
        return _canon_float(obj)
    if isinstance(obj, np.generic):
        return ["np", str(obj.dtype), obj.tobytes().hex()]
    if isinstance(obj, np.ndarray):
        if obj.dtype == object:
            return ["nda-o", list(obj.shape), [canon(x, _depth + 1) for x in obj.ravel().tolist()]]
        return [
            "nda",
            str(obj.dtype),
            list(obj.shape),
            hashlib.sha256(np.ascontiguousarray(obj).tobytes()).hexdigest()[:24],
        ]
    if isinstance(obj, (datetime.date, datetime.datetime)):
        return "d:" + obj.isoformat()
    if isinstance(obj, dict):
        return ["dict", [[canon(k, _depth + 1), canon(v, _depth + 1)] for k, v in obj.items()]]
    if isinstance(obj, (list, tuple)):
        return [type(obj).__name__, [canon(v, _depth + 1) for v in obj]]
    if isinstance(obj, (set, frozenset)):
        return ["set", sorted(json.dumps(canon(v, _depth + 1), sort_keys=True) for v in obj)]
    try:
        import pandas as pd

        if isinstance(obj, pd.Series):
            return ["series", canon_series(obj)]
        if isinstance(obj, pd.DataFrame):
            return ["frame", canon_frame(obj)]
        if isinstance(obj, pd.Index):
            return ["index", canon_index(obj)]
    except ImportError:  # pragma: no cover
        pass
    import types as _types

    if isinstance(obj, _types.ModuleType):
        return "module:" + obj.__name__
    if isinstance(obj, type):
        return "type:" + obj.__module__ + "." + obj.__qualname__
    if callable(obj):
        return ["callable", describe_callable(obj)]
    # unknown object: never let a memory address into a canonical form
    d = getattr(obj, "__dict__", None)
    if isinstance(d, dict) and d:
        return ["obj", type(obj).__module__ + "." + type(obj).__qualname__, canon(d, _depth + 1)]
    import re

    return "repr:" + type(obj).__name__ + ":" + re.sub(r" at 0x[0-9a-fA-F]+", "", repr(obj))[:200]


def canon_values(arr) -> list:
    import numpy as np

    a = np.asarray(arr)
    if a.dtype == object:
        return ["o", [canon(x) for x in a.tolist()]]
    return [str(a.dtype), hashlib.sha256(np.ascontiguousarray(a).tobytes()).hexdigest()[:24]]


def canon_index(idx) -> list:
    try:
        vals = idx.to_numpy()
    except Exception:  # noqa: BLE001
        vals = list(idx)
    return [type(idx).__name__, str(getattr(idx, "dtype", "")), canon(list(idx.names)), canon_values(vals)]


def canon_series(s) -> list:
    return [canon(s.name), str(s.dtype), canon_values(s.to_numpy()), canon_index(s.index)]


def canon_frame(df) -> list:
    cols = []
    for i, c in enumerate(df.columns):
        col = df.iloc[:, i]
        cols.append([canon(c), str(col.dtype), canon_values(col.to_numpy())])
    return [cols, canon_index(df.index)]


def describe_callable(f) -> dict:
    d = {"type": type(f).__name__}
    for attr in ("__module__", "__qualname__", "__name__"):
        v = getattr(f, attr, None)
        if isinstance(v, str):
            d[attr] = v
    code = getattr(f, "__code__", None)
    if code is not None and hasattr(code, "co_code"):
        d["code"] = code_hash(code)
    info = getattr(f, "__info__", None)
    if info is not None:
        d["info"] = canon(info)
    ann = getattr(f, "__annotations__", None)
    if ann:
        d["ann"] = {k: (v if isinstance(v, str) else getattr(v, "__name__", repr(v))) for k, v in ann.items()}
    dfl = getattr(f, "__defaults__", None)
    if dfl:
        d["defaults"] = canon(list(dfl))
    return d


def code_hash(code) -> str:
    h = hashlib.sha256()
    h.update(code.co_code)
    h.update(repr(code.co_names).encode())
    h.update(repr(code.co_varnames).encode())
    for c in code.co_consts:
        if hasattr(c, "co_code"):
            h.update(code_hash(c).encode())
        else:
            h.update(repr(c).encode())
    return h.hexdigest()[:16]


def digest(obj) -> str:
    return hashlib.sha256(json.dumps(obj, sort_keys=True, ensure_ascii=False, default=str).encode()).hexdigest()[:24]


def jdump(obj) -> str:
    return json.dumps(obj, sort_keys=True, ensure_ascii=False, default=_json_default)


def _json_default(o):
    import numpy as np

    if isinstance(o, np.integer):
        return int(o)
    if isinstance(o, np.floating):
        return float(o)
    if isinstance(o, np.bool_):
        return bool(o)
    if isinstance(o, np.ndarray):
        return o.tolist()
    if isinstance(o, (datetime.date, datetime.datetime)):
        return o.isoformat()
    if isinstance(o, (set, frozenset)):
        return sorted(o, key=str)
    return repr(o)


# --------------------------------------------------------------------------- results


def outcome_of_frame(df) -> dict:
    """Bitwise description of a result frame (see DESIGN 2.6)."""
    return {"kind": "frame", "value": canon_frame(df), "shape": list(df.shape)}


def outcome_of_exception(e: BaseException) -> dict:
    return {"kind": "exc", "cls": type(e).__name__}


# --------------------------------------------------------------------------- evidence


def write_evidence(prop: str, tier: str, seed: int, level: str, coverage: dict, assumptions, wall_s: float, violations: int, extra: dict | None = None):
    ev = {
        "property_id": prop,
        "tier": tier,
        "seed": int(seed),
        "level": level,
        "coverage": coverage,
        "assumptions": list(assumptions),
        "wall_s": round(float(wall_s), 3),
        "violations": int(violations),
    }
    if extra:
        ev.update(extra)
    d = Path(os.environ.get("VERIF_EVIDENCE_DIR") or VERIF / "evidence")
    d.mkdir(exist_ok=True)
    tmp = d / f".{prop}.json.tmp"
    tmp.write_text(json.dumps(ev, indent=1, ensure_ascii=False, default=_json_default, sort_keys=False) + "\n")
    os.replace(tmp, d / f"{prop}.json")
    return ev


COMPONENTS = {
    "real": ["_gettsim (from /repo/src working tree)", "dags", "numpy", "pandas", "numpy_groupies", "networkx", "yaml", "astor"],
    "interposed": [
        "pathlib.Path.read_text (delegating wrapper; fails or truncates only when a fault fires)",
        "pathlib.Path.rglob (delegating wrapper; permutes the result list)",
        "sys.settrace line tracer (abort injector; only frames under /repo/src/_gettsim)",
    ],
    "stubbed": [],
}


def log(*a):
    print(*a, file=sys.stderr, flush=True)
