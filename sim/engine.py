"""Driver-side infrastructure: logical slots with pristine zygotes, deterministic
scheduling of runs, reference memo, replay files, known findings.

The driver never imports gettsim.  Runs are a pure function of (VERIF_SEED, property,
run index); the slot of run i is i % N_SLOTS, the hash seed of a slot's session zygote
is H(VERIF_SEED, "S", slot), all reference zygotes share H(VERIF_SEED, "R").  `parallel`
only limits how many slots are active at once and never changes what is executed.
"""
from __future__ import annotations

import json
import os
import threading
import time
from concurrent.futures import ThreadPoolExecutor
from pathlib import Path

from sim.core import N_SLOTS, VERIF, H, HarnessError, jdump, log, repo_tree_hash
from sim.zygote import Zygote, cold_call


class Slot:
    def __init__(self, seed: int, k: int):
        self.k = k
        self.S = Zygote(H(seed, "S", k) % 4294967295, f"S{k}")
        self.R = Zygote(H(seed, "R") % 4294967295, f"R{k}")

    def close(self):
        self.S.close()
        self.R.close()


class Engine:
    def __init__(self, seed: int, parallel: int | None = None):
        self.seed = seed
        self.parallel = parallel or int(os.environ.get("VERIF_PARALLEL", "0")) or min(N_SLOTS, os.cpu_count() or 4)
        self.slots = [Slot(seed, k) for k in range(N_SLOTS)]
        self.memo = {}
        self.memo_refs = {}
        self.memo_lock = threading.Lock()
        self.memo_hits = 0
        self.memo_misses = 0
        self.tree = repo_tree_hash()
        self.cold_seed = H(seed, "cold") % 4294967295
        self.t0 = time.monotonic()

    # ---------------------------------------------------------------- scheduling
    def map_runs(self, fn, indices, progress=None):
        """fn(slot, i) -> result.  Results are returned as {i: result}.  Run i executes on
        slot i % N_SLOTS; each slot processes its indices in increasing order."""
        per_slot = {k: [] for k in range(N_SLOTS)}
        for i in sorted(indices):
            per_slot[i % N_SLOTS].append(i)
        results = {}
        errors = []
        lock = threading.Lock()
        done = [0]
        total = sum(len(v) for v in per_slot.values())

        def work(k):
            slot = self.slots[k]
            for i in per_slot[k]:
                if errors:
                    return
                try:
                    r = fn(slot, i)
                except HarnessError as e:
                    with lock:
                        errors.append((i, e))
                    return
                except Exception as e:  # noqa: BLE001
                    import traceback

                    with lock:
                        errors.append((i, HarnessError(f"driver exception in run {i}: {e!r}\n{traceback.format_exc()}")))
                    return
                with lock:
                    results[i] = r
                    done[0] += 1
                    if progress and (done[0] % progress == 0 or done[0] == total):
                        log(f"  .. {done[0]}/{total} runs, {time.monotonic() - self.t0:.0f}s")

        active = [k for k in range(N_SLOTS) if per_slot[k]]
        with ThreadPoolExecutor(max_workers=max(1, min(self.parallel, len(active) or 1))) as ex:
            list(ex.map(work, active))
        if errors:
            errors.sort(key=lambda x: x[0])
            raise errors[0][1]
        return results

    # ---------------------------------------------------------------- references
    def reference(self, slot: Slot, module: str, func: str, recipe, timeout_s=600):
        """Memoised call in a pristine reference child (history-free by construction)."""
        key = f"{module}.{func}:" + jdump(recipe)
        with self.memo_lock:
            hit = self.memo.get(key)
            if hit is not None:
                self.memo_hits += 1
                return hit
        val = slot.R.call(module, func, recipe, timeout_s=timeout_s)
        with self.memo_lock:
            self.memo.setdefault(key, val)
            self.memo_misses += 1
            return self.memo[key]

    def cold(self, module: str, func: str, *args, hashseed=None, **kw):
        return cold_call(module, func, *args, hashseed=self.cold_seed if hashseed is None else hashseed, **kw)

    def close(self):
        for s in self.slots:
            s.close()


# -------------------------------------------------------------------- replay files


def replay_dir() -> Path:
    d = VERIF / "replays"
    d.mkdir(exist_ok=True)
    return d


def write_replay(prop: str, seed: int, i, payload: dict) -> Path:
    p = replay_dir() / f"{prop}-{seed}-{i}.json"
    payload = {"property": prop, "verif_seed": seed, "run_index": i, "repo_tree": repo_tree_hash(), **payload}
    p.write_text(json.dumps(payload, indent=1, ensure_ascii=False, default=_dflt) + "\n")
    return p


def _dflt(o):
    from sim.core import _json_default

    return _json_default(o)


# -------------------------------------------------------------------- known findings


def load_known(prop: str) -> tuple[list, list]:
    p = VERIF / "known_findings.json"
    if not p.exists():
        return [], []
    data = json.loads(p.read_text())
    open_ = [f for f in data.get("open", []) if f.get("property") == prop]
    fixed = [f for f in data.get("fixed", []) if f"property={prop} " in (f if isinstance(f, str) else "")]
    return open_, fixed


def match_known(open_findings: list, key: dict):
    """A violation (already minimised) is a known finding iff *every* field of the
    finding's `match` dict equals the violation key's field."""
    for f in open_findings:
        m = f.get("match", {})
        if m and all(key.get(k) == v for k, v in m.items()):
            return f
    return None


def dump_digests(prop: str, results: dict):
    """Self-test support: VERIF_DIGESTS=<path> makes every driver write {run index: digest}."""
    path = os.environ.get("VERIF_DIGESTS")
    if path:
        with open(path, "w") as f:
            json.dump({"property": prop, "digests": {str(i): results[i]["log_digest"] for i in sorted(results)}}, f)
