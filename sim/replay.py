"""./check replay <file>: re-execute a replay file in brand-new interpreters."""
from __future__ import annotations

import json


def replay(path: str) -> int:
    data = json.loads(open(path).read())
    prop = data["property"]
    import importlib

    mod = importlib.import_module({"C14": "sim.c14_driver", "C01": "sim.c01_driver", "C02": "sim.c02_driver", "C20": "sim.c20_driver"}[prop])
    return mod.replay_file(path)
