"""C02 driver: seeded multiplexing of two closed populations + identifier relabelling."""
from __future__ import annotations

import json
import random
import time

from sim.core import COMPONENTS, EXIT_OK, EXIT_VIOLATION, REPO_SRC, VERIF, H, HarnessError, digest, jdump, log, write_evidence
from sim.engine import Engine, dump_digests, load_known, match_known, write_replay
from sim.popgen import date_pool

PROP = "C02"
TIERS = {
    "quick": {"runs": 48, "pairs_per_run": 3, "n_random": 2, "n_relabel": 3, "max_first": 2, "rows": (1, 7), "selftest": 4, "crowd": [270, 270, 420, 1100]},
    "thorough": {"runs": 1600, "pairs_per_run": 4, "n_random": 3, "n_relabel": 4, "max_first": 4, "rows": (1, 9), "selftest": 32, "crowd": [270, 420, 1100, 2600]},
}


def vkey_of(case: dict) -> dict:
    return {"node": case["node"], "with_bystanders": bool(case.get("B")), "relabelled": bool(case.get("relabel"))}


def _case_of(v):
    return {k: v.get(k) for k in ("date", "A", "B", "merge", "relabel", "node")}


def replay_file(path: str) -> int:
    from sim.zygote import cold_call

    data = json.loads(open(path).read())
    case = data["case"]
    rep = cold_call("sim.c02", "replay_case", case, hashseed=data.get("hashseed", 12345))
    if case["node"] in rep["violating"]:
        print(f"VIOLATION property={PROP} replay={path}")
        print("  " + jdump({"node": case["node"], "detail": rep["detail"].get(case["node"])})[:1500])
        return EXIT_VIOLATION
    print(f"replay of {path}: node {case['node']} not in the first-divergent frontier {rep['violating']}")
    return EXIT_OK


def run_check(tier: str, seed: int, runs: int | None = None, parallel: int | None = None) -> int:
    t0 = time.monotonic()
    T = dict(TIERS[tier])
    if runs:
        T["runs"] = runs
    cfg = {"dates": date_pool(REPO_SRC), **{k: T[k] for k in ("pairs_per_run", "n_random", "n_relabel", "max_first", "rows", "crowd")}, "sample": True}
    engine = Engine(seed, parallel)
    open_known, _ = load_known(PROP)
    known_lines, viol_lines = [], []
    try:
        for f in open_known:
            rp = f.get("replay")
            if rp:
                case = json.loads((VERIF / rp).read_text())["case"]
                rep = engine.cold("sim.c02", "replay_case", case)
                if case["node"] in rep["violating"]:
                    known_lines.append(f"KNOWN-FINDING: property={PROP} {f['what']}")
                else:
                    log(f"note: known finding {f.get('id')} no longer reproduces")

        def one(slot, i):
            res = slot.S.call("sim.c02", "explore", H(seed, PROP, i), cfg, timeout_s=1800)
            res["log_digest"] = digest(res)
            return res

        results = engine.map_runs(one, range(T["runs"]), progress=max(16, T["runs"] // 8))
        dump_digests(PROP, results)
        st = sorted(random.Random(H(seed, PROP, "selftest")).sample(range(T["runs"]), min(T["selftest"], T["runs"])))
        again = engine.map_runs(lambda slot, j: one(engine.slots[(st[j] + 5) % len(engine.slots)], st[j])["log_digest"], range(len(st)))
        mism = [st[j] for j in again if again[j] != results[st[j]]["log_digest"]]
        if mism:
            raise HarnessError(f"determinism self-test failed for run indices {mism}")

        S = {"pairs": 0, "computes": 0, "E": 0, "C": 0, "F": 0, "unresolved": 0, "families": {}, "dates": set(), "nontrivial": set(), "trivial": 0, "setup_failed": 0,
             "ref_exc": {}, "b_fails_alone": 0, "bmodes": {}, "nodes": 0, "crowds": {}}
        samples, found = [], []
        for i in sorted(results):
            r = results[i]
            S["dates"].add(r["date"])
            if r["setup"] != "ok":
                S["setup_failed"] += 1
                continue
            S["nodes"] = max(S["nodes"], r.get("n_nodes", 0))
            for v in r["violations"]:
                found.append((i, v))
            for c in r["cases"]:
                S["pairs"] += 1
                S["computes"] += 1 + len(c["variants"])
                for k in ("E", "C", "F", "unresolved", "b_fails_alone"):
                    S[k] += c[k]
                S["bmodes"][c["bmode"]] = S["bmodes"].get(c["bmode"], 0) + 1
                if c.get("crowd"):
                    ck = f"{c['crowd'][1]}>={(c['crowd'][0] // 100) * 100}"
                    S["crowds"][ck] = S["crowds"].get(ck, 0) + 1
                for fam in c["variants"]:
                    S["families"][fam] = S["families"].get(fam, 0) + 1
                if c["ref"] != "frame":
                    S["ref_exc"][c["ref"]] = S["ref_exc"].get(c["ref"], 0) + 1
                if c["ref"] == "frame" and c["variants"]:
                    for fam in set(c["variants"]):
                        S["nontrivial"].add((c["sigA"], c["sigB"] if "relabel" not in fam or "+B" in fam else "-", r["date"][:7], fam))
                else:
                    S["trivial"] += 1
                if "sample" in c and len(samples) < 3:
                    samples.append({"run_index": i, **c["sample"], "outcome": "A's results identical alone, in every interleaving with B and under every relabelling" if not r["violations"] else "violation"})

        exit_code = EXIT_OK
        seen = set()
        unreproduced = []
        for i, v in found:
            key = vkey_of(v)
            if jdump(key) in seen:
                continue
            seen.add(jdump(key))
            kf = match_known(open_known, key)
            if kf is not None:
                line = f"KNOWN-FINDING: property={PROP} {kf['what']}"
                if line not in known_lines:
                    known_lines.append(line)
                continue
            case = _case_of(v)
            confirms = [case["node"] in engine.cold("sim.c02", "replay_case", case, hashseed=engine.slots[i % len(engine.slots)].S.hashseed)["violating"] for _ in range(3)]
            if not all(confirms):
                unreproduced.append(f"run {i} node {case['node']}: {confirms}")
                continue
            tag = f"{i}-{len(viol_lines)}"
            path = write_replay(PROP, seed, tag, {"hashseed": engine.slots[i % len(engine.slots)].S.hashseed, "case": case, "violation_key": key, "report": v.get("report"), "family": v.get("family"), "original_rows": v.get("original_rows"), "minimised_rows": [len(case["A"]["p_id"]), len(case["B"]["p_id"]) if case.get("B") else 0], "shrink_candidates": v.get("shrink_candidates"), "replay_cmd": f"./check replay replays/{PROP}-{seed}-{tag}.json"})
            viol_lines.append(f"VIOLATION property={PROP} replay={path}")
            log(f"  violation: node={case['node']} family={v.get('family')} A={len(case['A']['p_id'])} B={len(case['B']['p_id']) if case.get('B') else 0} detail={jdump((v.get('report') or {}).get('detail', {}).get(case['node']))[:400]}")
            exit_code = EXIT_VIOLATION
        from sim.c01_driver import _unreproduced_verdict

        _unreproduced_verdict(unreproduced, viol_lines)
    finally:
        engine.close()

    wall = time.monotonic() - t0
    coverage = {
        "evaluations": S["computes"],
        "distinct_nontrivial": len(S["nontrivial"]),
        "rule": "evaluations = API calls executed and compared (simulate(A) alone once per pair + one joint/relabelled call per variant); a case is non-trivial if "
        "simulate(A) succeeded; distinct = distinct (structure signature of A, structure signature of B, policy month, variant family)",
        "samples": samples,
        "exhaustive": False,
        "runs": T["runs"],
        "pairs_A_B": S["pairs"],
        "variant_families": dict(sorted(S["families"].items())),
        "bystander_id_placement": S["bmodes"],
        "nodes_compared_per_call": S["nodes"],
        "node_comparisons": {"E_bit_equal": S["E"], "C_within_1e-9": S["C"], "F_farther": S["F"], "unresolved": S["unresolved"]},
        "joint_calls_where_B_fails_on_its_own": S["b_fails_alone"],
        "trivial_cases": S["trivial"],
        "simulate_A_raised": S["ref_exc"],
        "setup_failed_runs": S["setup_failed"],
        "identifier_bounds": {"p_id": "< 1e6 for sparse/random maps, up to 2**62 for the 'huge' relabelling", "hh_id": "< 1e4"},
        "crowds": S["crowds"],
        "policy_dates_drawn": len(S["dates"]),
        "policy_date_span": [min(S["dates"]), max(S["dates"])] if S["dates"] else [],
        "simulated_time": "none (no clock, no concurrency, no faults in this property; the schedule is the interleaving of two row producers)",
        "runs_per_hour": round(T["runs"] / wall * 3600),
        "calls_per_hour": round(S["computes"] / wall * 3600),
        "selftest_runs_repeated": len(st),
        "parallel": engine.parallel,
        "components": COMPONENTS,
        "repo_tree": engine.tree,
        "known_findings_reported": known_lines,
    }
    write_evidence(PROP, tier, seed, "exploration", coverage,
                   ["reference = simulate(A) alone with the original labels (the system itself)",
                    "A's internal row order is preserved in every interleaving, so results are expected bit-equal; tolerance 1e-9 only guards library-level summation differences",
                    "identifier ranges are bounded (memory of group-id arithmetic)"],
                   wall, len(viol_lines))
    for line in known_lines:
        print(line)
    for line in viol_lines:
        print(line)
    print(f"C02 {tier}: {S['pairs']} pairs, {S['computes']} calls, {len(viol_lines)} violations, {wall:.0f}s")
    return exit_code
