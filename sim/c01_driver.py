"""C01 driver: seeded search over row orders / index labellings."""
from __future__ import annotations

import json
import time

from sim.core import COMPONENTS, EXIT_OK, EXIT_VIOLATION, REPO_SRC, H, HarnessError, digest, jdump, log, write_evidence
from sim.engine import Engine, dump_digests, load_known, match_known, write_replay
from sim.popgen import date_pool

PROP = "C01"
TIERS = {
    "quick": {"runs": 48, "pops_per_run": 3, "n_random": 2, "rows": (2, 12), "exh_runs": 16, "exh_pops": 3, "selftest": 4},
    "thorough": {"runs": 1600, "pops_per_run": 4, "n_random": 4, "rows": (2, 14), "exh_runs": 400, "exh_pops": 6, "selftest": 32},
}


def vkey_of(case: dict) -> dict:
    """Key for known findings: first-divergent node + structural predicate of the minimised case."""
    cols = case["cols"]
    n = len(cols["p_id"])
    return {
        "node": case["node"],
        "has_partner": any(v >= 0 for v in cols.get("p_id_einstandspartner", [])),
        "has_child": any(v >= 0 for v in cols.get("p_id_elternteil_1", [])) or any(v >= 0 for v in cols.get("p_id_elternteil_2", [])),
    }


def _unreproduced_verdict(unreproduced, viol_lines):
    """Differences seen inside the exploring process that do not replay in a brand-new
    interpreter are not violations of this property (they point to history dependence
    inside one process - a C14 matter - or to harness nondeterminism).  They are reported;
    if nothing else was confirmed the run has no verdict (exit 2)."""
    for u in unreproduced:
        log(f"  NOT-REPRODUCED in cold interpreters (no verdict from it): {u}")
    if unreproduced and not viol_lines:
        raise HarnessError(f"{len(unreproduced)} in-process difference(s) did not replay in cold interpreters: {unreproduced[:3]}")


def replay_file(path: str) -> int:
    from sim.zygote import cold_call

    data = json.loads(open(path).read())
    case = data["case"]
    rep = cold_call("sim.c01", "replay_case", case, hashseed=data.get("hashseed", 12345))
    if case["node"] in rep["violating"]:
        print(f"VIOLATION property={PROP} replay={path}")
        print("  " + jdump({"node": case["node"], "detail": rep["detail"].get(case["node"])})[:1500])
        return EXIT_VIOLATION
    print(f"replay of {path}: node {case['node']} not in the first-divergent frontier {rep['violating']}")
    return EXIT_OK


def run_check(tier: str, seed: int, runs: int | None = None, parallel: int | None = None) -> int:
    t0 = time.monotonic()
    T = dict(TIERS[tier])
    if runs:
        T["runs"] = runs
        T["exh_runs"] = max(1, runs // 3)
    dates = date_pool(REPO_SRC)
    cfg = {"dates": dates, "pops_per_run": T["pops_per_run"], "n_random": T["n_random"], "rows": T["rows"], "sample": True, "crowd": [270, 270, 420, 1100] if tier == "quick" else [270, 420, 1100, 2600], "crowd_p": 0.34}
    xcfg = {"dates": dates, "pops_per_run": T["exh_pops"]}
    engine = Engine(seed, parallel)
    open_known, _ = load_known(PROP)
    known_lines, viol_lines = [], []
    try:
        for f in open_known:
            rp = f.get("replay")
            if rp:
                from sim.core import VERIF

                case = json.loads((VERIF / rp).read_text())["case"]
                rep = engine.cold("sim.c01", "replay_case", case)
                if case["node"] in rep["violating"]:
                    known_lines.append(f"KNOWN-FINDING: property={PROP} {f['what']}")
                else:
                    log(f"note: known finding {f.get('id')} no longer reproduces")

        def one(slot, i):
            if i < T["runs"]:
                res = slot.S.call("sim.c01", "explore", H(seed, PROP, i), cfg, timeout_s=1800)
            else:
                res = slot.S.call("sim.c01", "exhaustive", H(seed, PROP, "x", i), xcfg, timeout_s=1800)
            res["log_digest"] = digest(res)
            return res

        total = T["runs"] + T["exh_runs"]
        results = engine.map_runs(one, range(total), progress=max(16, total // 8))

        dump_digests(PROP, results)
        # determinism self-test
        import random

        st = sorted(random.Random(H(seed, PROP, "selftest")).sample(range(total), min(T["selftest"], total)))
        again = engine.map_runs(lambda slot, j: one(engine.slots[(st[j] + 5) % len(engine.slots)], st[j])["log_digest"], range(len(st)))
        mism = [st[j] for j in again if again[j] != results[st[j]]["log_digest"]]
        if mism:
            raise HarnessError(f"determinism self-test failed for run indices {mism}")

        # accounting
        S = {"pops": 0, "computes": 0, "orders": 0, "E": 0, "C": 0, "F": 0, "fp_amplified": 0, "unresolved": 0, "dtype_diff": 0, "families": {}, "probes": {}, "dates": set(),
             "nontrivial": set(), "trivial": 0, "setup_failed": 0, "canon_exc": {}, "exh_pops": 0, "exh_orders": 0, "exh_sigs": set(), "id_modes": {}, "nodes": 0}
        samples = []
        found = []
        for i in sorted(results):
            r = results[i]
            S["dates"].add(r["date"])
            if r["setup"] != "ok":
                S["setup_failed"] += 1
                continue
            for v in r["violations"]:
                found.append((i, v))
            if i >= T["runs"]:
                S["exh_pops"] += r["pops"]
                S["exh_orders"] += r["orders"]
                S["computes"] += r["orders"] + r["pops"]
                S["exh_sigs"].update(r["sigs"])
                continue
            S["nodes"] = max(S["nodes"], r.get("n_nodes", 0))
            for c in r["cases"]:
                S["pops"] += 1
                S["orders"] += len(c["orders"])
                S["computes"] += len(c["orders"]) + 1
                for k in ("E", "C", "F", "fp_amplified", "unresolved", "dtype_diff"):
                    S[k] += c[k]
                S["id_modes"][c["id_mode"]] = S["id_modes"].get(c["id_mode"], 0) + 1
                for fam in c["orders"]:
                    S["families"][fam] = S["families"].get(fam, 0) + 1
                for pk, pv in c["probes"].items():
                    S["probes"][pk] = S["probes"].get(pk, 0) + pv
                if c["canon"] != "frame":
                    S["canon_exc"][c["canon"]] = S["canon_exc"].get(c["canon"], 0) + 1
                if c["canon"] == "frame" and c["n"] >= 2 and c["varies"] and c["orders"]:
                    for fam in set(c["orders"]):
                        S["nontrivial"].add((c["sig"], r["date"][:7], fam))
                else:
                    S["trivial"] += 1
                if "sample" in c and len(samples) < 3:
                    samples.append({"run_index": i, **c["sample"], "outcome": "all orders agree with the canonical-order run" if not r["violations"] else "violation"})

        exit_code = EXIT_OK
        seen = set()
        unreproduced = []
        for i, v in found:
            key = vkey_of(v)
            if jdump(key) in seen:
                continue
            seen.add(jdump(key))
            kf = match_known(open_known, key)
            if kf is not None:
                line = f"KNOWN-FINDING: property={PROP} {kf['what']}"
                if line not in known_lines:
                    known_lines.append(line)
                continue
            case = {k: v[k] for k in ("date", "cols", "variant", "node") if k in v}
            if v.get("targets"):
                case["targets"] = v["targets"]
            confirms = []
            for t in range(3):
                rep = engine.cold("sim.c01", "replay_case", case, hashseed=engine.slots[i % len(engine.slots)].S.hashseed)
                confirms.append(case["node"] in rep["violating"])
            if not all(confirms):
                unreproduced.append(f"run {i} node {case['node']}: {confirms}")
                continue
            path = write_replay(PROP, seed, f"{i}-{len(viol_lines)}", {"hashseed": engine.slots[i % len(engine.slots)].S.hashseed, "case": case, "violation_key": key, "report": v.get("report"), "family": v.get("family"), "original_rows": v.get("original_rows"), "minimised_rows": len(case["cols"]["p_id"]), "shrink_candidates": v.get("shrink_candidates"), "replay_cmd": f"./check replay replays/{PROP}-{seed}-{i}-{len(viol_lines)}.json"})
            viol_lines.append(f"VIOLATION property={PROP} replay={path}")
            log(f"  violation: node={case['node']} rows={len(case['cols']['p_id'])} order={case['variant']['order']} detail={jdump((v.get('report') or {}).get('detail', {}).get(case['node']))[:400]}")
            exit_code = EXIT_VIOLATION
        _unreproduced_verdict(unreproduced, viol_lines)
    finally:
        engine.close()

    wall = time.monotonic() - t0
    coverage = {
        "evaluations": S["computes"],
        "distinct_nontrivial": len(S["nontrivial"]),
        "rule": "evaluations = API calls executed and compared (one canonical-order call per population + one per order); a case is non-trivial if the canonical call "
        "succeeded, the population has >= 2 rows, the order is not the identity and at least one non-id column varies over rows; distinct = distinct "
        "(pointer-structure signature, policy month, order family) among those",
        "samples": samples,
        "exhaustive": False,
        "runs": T["runs"],
        "populations": S["pops"],
        "orders_executed": S["orders"],
        "order_families": dict(sorted(S["families"].items())),
        "nodes_compared_per_call": S["nodes"],
        "node_comparisons": {"E_bit_equal": S["E"], "C_within_1e-9": S["C"], "F_farther": S["F"], "fp_amplified_resolved_by_isolation": S["fp_amplified"], "unresolved": S["unresolved"]},
        "dtype_differences_probe": S["dtype_diff"],
        "mechanism_probes": dict(sorted(S["probes"].items())),
        "trivial_cases": S["trivial"],
        "canonical_call_raised": S["canon_exc"],
        "setup_failed_runs": S["setup_failed"],
        "id_labelling_of_canonical_table": S["id_modes"],
        "exhaustive_sweeps": {"populations_with_all_orders": S["exh_pops"], "orders": S["exh_orders"], "distinct_structures": len(S["exh_sigs"]), "targets": "derived group ids and pointer aggregates", "exhaustive_for_those_populations": True},
        "policy_dates_drawn": len(S["dates"]),
        "policy_date_span": [min(S["dates"]), max(S["dates"])] if S["dates"] else [],
        "simulated_time": "none (no clock, no concurrency, no faults in this property; the schedule is the row arrival order)",
        "runs_per_hour": round((T["runs"] + T["exh_runs"]) / wall * 3600),
        "calls_per_hour": round(S["computes"] / wall * 3600),
        "selftest_runs_repeated": len(st),
        "parallel": engine.parallel,
        "components": COMPONENTS,
        "repo_tree": engine.tree,
        "known_findings_reported": known_lines,
    }
    write_evidence(PROP, tier, seed, "exploration", coverage,
                   ["the oracle is the system itself in canonical row order: a defect identical in every order is invisible",
                    "values are compared E/C/F with rtol=atol=1e-9; a node farther than that whose parents are only bit-equal or isolation-confirmed is a violation",
                    "populations come from /verif's generator (valid by construction: reciprocal partners, constant household-level inputs)"],
                   wall, len(viol_lines))
    for line in known_lines:
        print(line)
    for line in viol_lines:
        print(line)
    print(f"C01 {tier}: {S['pops']} populations, {S['orders']} orders, exhaustive {S['exh_pops']} pops/{S['exh_orders']} orders, {len(viol_lines)} violations, {wall:.0f}s")
    return exit_code
