import warnings, hashlib, pickle, sys
import numpy as np, pandas as pd
warnings.simplefilter("ignore")
from gettsim import set_up_policy_environment, compute_taxes_and_transfers, create_synthetic_data
params, functions = set_up_policy_environment("2022-07-01")
df = create_synthetic_data(n_adults=2, n_children=2, policy_year=2022, specs_heterogeneous={"bruttolohn_m": [[3000.0, 1500.0, 0.0, 0.0],[0.0,0.0,0.0,0.0]]}).drop(columns="hh_typ")
r = compute_taxes_and_transfers(df, params, functions, debug=True)
h = hashlib.sha256()
h.update(repr(list(r.columns)).encode()); h.update(repr(list(r.dtypes.astype(str))).encode())
for c in r.columns: h.update(np.ascontiguousarray(r[c].values).tobytes())
print(h.hexdigest()[:16], list(functions)[:3])
