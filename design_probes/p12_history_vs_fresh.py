import warnings, sys, hashlib, pickle, json, random, pathlib
import numpy as np, pandas as pd
warnings.simplefilter("ignore")
from gettsim import set_up_policy_environment, compute_taxes_and_transfers, create_synthetic_data
def digest(date, targets=None, rounding=True):
    params, functions = set_up_policy_environment(date)
    df = create_synthetic_data(n_adults=2, n_children=2, policy_year=2022, specs_heterogeneous={"bruttolohn_m": [[3000.25, 1500.0, 0.0, 0.0],[0.0,0.0,0.0,0.0],[700.0,0,0,0]]}).drop(columns="hh_typ")
    try:
        r = compute_taxes_and_transfers(df, params, functions, targets=targets, rounding=rounding)
        h = hashlib.sha256(pickle.dumps(params)); h.update(repr(list(r.columns)).encode()); h.update(repr(list(r.dtypes.astype(str))).encode())
        for c in r.columns: h.update(np.ascontiguousarray(r[c].values).tobytes())
        return h.hexdigest()[:12]
    except Exception as e:
        return "EXC:"+type(e).__name__
dates = ["2020-01-01","2021-07-01","2022-01-01","2022-10-01","2023-07-01","2024-01-01","2019-07-01","2016-01-01"]
mode = sys.argv[1]
if mode == "fresh":
    print(json.dumps({d+str(r): digest(d, rounding=r) for d in [sys.argv[2]] for r in (True, False)}))
else:
    rng = random.Random(int(sys.argv[2])); out = {}
    seq = [(d, r) for d in dates for r in (True, False)]*2; rng.shuffle(seq)
    # extra API traffic
    from _gettsim.vectorization import make_vectorizable_source
    from _gettsim.functions_loader import load_internal_functions
    for i,(d, r) in enumerate(seq):
        if i % 5 == 0:
            try:
                compute_taxes_and_transfers(pd.DataFrame({"p_id":[0,0]}), {}, [], targets=[])
            except Exception: pass
        if i % 7 == 3:
            for f in list(load_internal_functions().values())[:40]:
                try: make_vectorizable_source(f, "numpy")
                except Exception: pass
        if i % 6 == 2:
            p, f = set_up_policy_environment(d)
            try: compute_taxes_and_transfers(create_synthetic_data(n_adults=1,n_children=1,policy_year=2022).drop(columns="hh_typ"), p, pathlib.Path("/repo/src/_gettsim/transfers/kindergeld.py"), targets=["kindergeld_anspruch"])
            except Exception as e: pass
        v = digest(d, rounding=r)
        out.setdefault(d+str(r), set()).add(v)
    print(json.dumps({k: sorted(v) for k,v in out.items()}))
