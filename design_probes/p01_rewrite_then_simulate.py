import warnings, copy, inspect, sys
import numpy as np, pandas as pd
warnings.simplefilter("ignore")
from gettsim import set_up_policy_environment, compute_taxes_and_transfers, create_synthetic_data
from _gettsim.vectorization import make_vectorizable, make_vectorizable_source
from _gettsim.functions_loader import load_internal_functions
from _gettsim.shared import TIME_DEPENDENT_FUNCTIONS
import _gettsim.taxes.eink_st as m

def run(date="2022-07-01"):
    params, functions = set_up_policy_environment(date)
    df = create_synthetic_data(n_adults=2, n_children=2, policy_year=2022,
        specs_heterogeneous={"bruttolohn_m": [[3000.0, 1500.0, 0.0, 0.0],[0.0,0.0,0.0,0.0],[8000.0,500.0,0.0,0.0]]})
    return compute_taxes_and_transfers(df, params, functions), functions

r0, f0 = run()
n_reg = sum(len(v) for v in TIME_DEPENDENT_FUNCTIONS.values())
before = {k: v for k, v in vars(m).items() if inspect.isfunction(v)}
fails = 0
for name, f in load_internal_functions().items():
    if hasattr(f, "__info__") and f.__info__.get("skip_vectorization"): continue
    try:
        make_vectorizable(f, "numpy")
    except Exception as e:
        fails += 1; print("ERR", name, type(e).__name__, str(e)[:100])
after = {k: v for k, v in vars(m).items() if inspect.isfunction(v)}
print("rebound in eink_st:", [k for k in before if before[k] is not after.get(k)][:10])
print("registry", n_reg, sum(len(v) for v in TIME_DEPENDENT_FUNCTIONS.values()))
try:
    r1, f1 = run()
    print("equal after rewrite:", r0.equals(r1))
    if not r0.equals(r1):
        d = (r0 != r1) & ~(r0.isna() & r1.isna())
        print(d.any())
        for c in r0.columns[d.any()]:
            print(c, r0[c].values, r1[c].values)
    print(r0.dtypes.equals(r1.dtypes))
    print("functions same objects:", sum(f0[k] is f1[k] for k in f0), len(f0))
except Exception as e:
    import traceback; traceback.print_exc()
