import warnings, copy, inspect, sys
import numpy as np, pandas as pd
warnings.simplefilter("ignore")
from gettsim import set_up_policy_environment, compute_taxes_and_transfers, create_synthetic_data
params, functions = set_up_policy_environment("2022-07-01")
df = create_synthetic_data(n_adults=2, n_children=2, policy_year=2022)
# B: dict data with wrong dtype
d = {c: df[c] for c in df.columns if c != "hh_typ"}
d["alter"] = d["alter"].astype(float)
d["bruttolohn_m"] = pd.Series([3000, 1000, 0, 0])
ids_before = {k: id(v) for k, v in d.items()}
dt_before = {k: v.dtype for k, v in d.items()}
r = compute_taxes_and_transfers(d, params, functions)
print("dict mutated:", [(k, dt_before[k], d[k].dtype) for k in d if id(d[k]) != ids_before[k]])
# DataFrame input: does df change?
df2 = df.drop(columns="hh_typ").copy()
df2["alter"] = df2["alter"].astype(float)
snap = df2.copy(deep=True)
r = compute_taxes_and_transfers(df2, params, functions)
print("df unchanged:", df2.equals(snap), (df2.dtypes == snap.dtypes).all())
# params purity
import pickle
p0 = pickle.dumps(params)
r = compute_taxes_and_transfers(df2, params, functions)
print("params unchanged", pickle.dumps(params) == p0)
# writeable arrays?
print(df2["alter"].values.flags.writeable, pd.__version__, np.__version__)
