import pathlib, sys, time, warnings
warnings.simplefilter("ignore")
from gettsim import set_up_policy_environment, compute_taxes_and_transfers
orig = pathlib.Path.read_text; n=[0]
def rt(self,*a,**k):
    n[0]+=1; return orig(self,*a,**k)
pathlib.Path.read_text = rt
orig_rg = pathlib.Path.rglob; m=[0]
def rg(self,*a,**k):
    m[0]+=1; return orig_rg(self,*a,**k)
pathlib.Path.rglob = rg
p,f = set_up_policy_environment("2022-07-01")
print("read_text calls per setup:", n[0], "rglob:", m[0])
# line events in gettsim frames for setup / compute
import pandas as pd
cnt=[0]
def tracer(frame, event, arg):
    if frame.f_code.co_filename.startswith("/repo/src/_gettsim"):
        def local(frame, event, arg):
            if event=="line": cnt[0]+=1
            return local
        return local
    return None
sys.settrace(tracer); t=time.time(); p,f = set_up_policy_environment("2022-07-01"); sys.settrace(None)
print("setup line events", cnt[0], round(time.time()-t,2))
from gettsim import create_synthetic_data
df = create_synthetic_data(n_adults=2,n_children=2,policy_year=2022).drop(columns="hh_typ")
cnt[0]=0; sys.settrace(tracer); t=time.time(); r=compute_taxes_and_transfers(df,p,f); sys.settrace(None)
print("compute line events", cnt[0], round(time.time()-t,2))
