import warnings, sys, pickle
import numpy as np, pandas as pd
warnings.simplefilter("ignore")
from gettsim import set_up_policy_environment, compute_taxes_and_transfers, create_synthetic_data
class SimAbort(BaseException): pass
def run_with_abort(fn, k):
    cnt=[0]
    def local(frame, event, arg):
        if event=="line":
            cnt[0]+=1
            if cnt[0]==k: raise SimAbort(f"{frame.f_code.co_filename}:{frame.f_lineno}")
        return local
    def tracer(frame, event, arg):
        if frame.f_code.co_filename.startswith("/repo/src/_gettsim"): return local
        return None
    sys.settrace(tracer)
    try:
        return ("ok", fn())
    except SimAbort as e:
        return ("abort", str(e))
    except BaseException as e:
        return ("other", type(e).__name__, str(e)[:80])
    finally:
        sys.settrace(None)
params, functions = set_up_policy_environment("2022-07-01")
df = create_synthetic_data(n_adults=2, n_children=2, policy_year=2022).drop(columns="hh_typ")
ref = compute_taxes_and_transfers(df, params, functions)
p0 = pickle.dumps(params); snap = df.copy(deep=True)
import random
rng = random.Random(3)
outs = {}
for _ in range(25):
    k = int(10 ** rng.uniform(0, 5))
    res = run_with_abort(lambda: compute_taxes_and_transfers(df, params, functions), k)
    outs[res[0]] = outs.get(res[0],0)+1
    if res[0]=="other": print(k, res)
    assert pickle.dumps(params)==p0 and df.equals(snap)
print(outs)
for _ in range(6):
    k = int(10 ** rng.uniform(0, 4.7))
    res = run_with_abort(lambda: set_up_policy_environment("2021-01-01"), k)
    print(k, res[0], res[1] if res[0]!="ok" else "")
r2 = compute_taxes_and_transfers(df, params, functions)
p2, f2 = set_up_policy_environment("2022-07-01")
print("after aborts equal:", r2.equals(ref), pickle.dumps(p2)==p0)
