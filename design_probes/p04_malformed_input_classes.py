import warnings, copy
import numpy as np, pandas as pd
from gettsim import set_up_policy_environment, compute_taxes_and_transfers, create_synthetic_data
warnings.simplefilter("ignore")
params, functions = set_up_policy_environment("2022-07-01")
base = create_synthetic_data(n_adults=2, n_children=2, policy_year=2022).drop(columns=["hh_typ"])
b2 = base.copy(); b2["p_id"] += 10; b2["hh_id"] += 1
for c in ["p_id_elternteil_1","p_id_elternteil_2","p_id_kindergeld_empf","p_id_erziehgeld_empf","p_id_betreuungsk_träger","p_id_einstandspartner","p_id_ehepartner"]:
    b2[c] = np.where(b2[c] >= 0, b2[c] + 10, -1)
base = pd.concat([base, b2], ignore_index=True)
def attempt(name, f):
    df = base.copy(deep=True)
    try:
        out = f(df)
        df = out if out is not None else df
        with warnings.catch_warnings(record=True) as w:
            warnings.simplefilter("always")
            r = compute_taxes_and_transfers(df, params, functions)
        print(f"{name:45s} ACCEPTED  warnings={[type(x.message).__name__ for x in w]}")
    except Exception as e:
        print(f"{name:45s} raised {type(e).__name__}: {str(e)[:70]!r}")
def setv(col, row, val):
    def f(df):
        df[col] = df[col].astype(type(val)) if isinstance(val, float) and df[col].dtype.kind in "iu" else df[col]
        df.loc[row, col] = val
    return f
attempt("valid", lambda df: None)
attempt("drop p_id", lambda df: df.drop(columns="p_id"))
attempt("dup p_id", setv("p_id", 5, 0))
attempt("ehepartner->missing", setv("p_id_ehepartner", 0, 99))
attempt("ehepartner->self", setv("p_id_ehepartner", 0, 0))
attempt("einstandsp->missing", setv("p_id_einstandspartner", 1, 99))
attempt("elternteil_1->self", setv("p_id_elternteil_1", 2, 2))
attempt("elternteil_2->missing", setv("p_id_elternteil_2", 3, 77))
attempt("pointer -2", setv("p_id_elternteil_2", 3, -2))
attempt("kindergeld_empf->missing", setv("p_id_kindergeld_empf", 3, 77))
attempt("miete varies in hh", setv("bruttokaltmiete_m_hh", 1, 1.0))
attempt("miete varies in hh (row0 lower)", setv("bruttokaltmiete_m_hh", 0, 1.0))
attempt("bewohnt_eigentum varies", setv("bewohnt_eigentum_hh", 2, True))
attempt("wohnfläche varies hh2", setv("wohnfläche_hh", 6, 10.0))
attempt("gemeinsam_veranlagt contradict", setv("gemeinsam_veranlagt", 1, False))
attempt("gemeinsam_veranlagt contradict other", setv("gemeinsam_veranlagt", 0, False))
attempt("drop alter", lambda df: df.drop(columns="alter"))
attempt("drop bruttolohn_m", lambda df: df.drop(columns="bruttolohn_m"))
def dupcol(df):
    df2 = pd.concat([df, df[["alter"]]], axis=1); return df2
attempt("dup column", dupcol)
def fr(df): df["alter"] = df["alter"].astype(float); df.loc[3,"alter"] = 5.5
attempt("alter fractional", fr)
def nanint(df): df["alter"] = df["alter"].astype(float); df.loc[3,"alter"] = np.nan
attempt("alter NaN", nanint)
def nanfloat(df): df.loc[3,"bruttolohn_m"] = np.nan
attempt("bruttolohn NaN (float col)", nanfloat)
def inffloat(df): df.loc[0,"bruttolohn_m"] = np.inf
attempt("bruttolohn inf", inffloat)
def bool2(df): df["kind"] = df["kind"].astype(int); df.loc[3,"kind"] = 2
attempt("kind=2 int", bool2)
def boolf(df): df["kind"] = df["kind"].astype(float); df.loc[3,"kind"] = 0.5
attempt("kind=0.5", boolf)
def b2f(df): df["bruttolohn_m"] = df["bruttolohn_m"] > 0
attempt("bool for float col", b2f)
def obj(df): df["alter"] = df["alter"].astype(object)
attempt("object alter", obj)
def strcol(df): df["alter"] = df["alter"].astype(str)
attempt("str alter", strcol)
def bigint(df): df["vermögen_bedürft"] = np.int64(2**53+1)
attempt("int 2^53+1 for float", bigint)
def nanpid(df): df["p_id"] = df["p_id"].astype(float); df.loc[3,"p_id"] = np.nan
attempt("p_id NaN", nanpid)
def negpid(df): df.loc[3,"p_id"] = -5
attempt("p_id negative", negpid)
def i2f(df): df["bruttolohn_m"] = df["bruttolohn_m"].astype(int)
attempt("lossless int for float", i2f)
def f2i(df): df["alter"] = df["alter"].astype(float)
attempt("lossless float for int", f2i)
def i2b(df): df["kind"] = df["kind"].astype(int)
attempt("lossless int for bool", i2b)
def nullable(df): df["alter"] = df["alter"].astype("Int64")
attempt("nullable Int64", nullable)
def nullable_na(df): df["alter"] = df["alter"].astype("Int64"); df.loc[3,"alter"] = pd.NA
attempt("nullable Int64 with NA", nullable_na)
