import warnings
import numpy as np, pandas as pd
warnings.simplefilter("ignore")
from gettsim import set_up_policy_environment, compute_taxes_and_transfers, create_synthetic_data
params, functions = set_up_policy_environment("2022-07-01")
df = create_synthetic_data(n_adults=2, n_children=2, policy_year=2022, specs_heterogeneous={"bruttolohn_m": [[3000.0, 1500.0, 0.0, 0.0],[0.0,0.0,0.0,0.0]]}).drop(columns="hh_typ")
r0 = compute_taxes_and_transfers(df, params, functions)
def tryidx(name, idx):
    d = df.copy(); d.index = idx
    try:
        r = compute_taxes_and_transfers(d, params, functions)
        print(name, "ok equal:", np.array_equal(r.values, r0.values, equal_nan=True), list(r.index[:3]))
    except Exception as e:
        print(name, "raised", type(e).__name__, str(e)[:100])
n=len(df)
tryidx("reversed ints", list(range(n))[::-1])
tryidx("strings", [f"r{i}" for i in range(n)])
tryidx("dups", [0]*n)
tryidx("partial dups", [0,0,1,1,2,2,3,3])
tryidx("float", [i+0.5 for i in range(n)])
tryidx("multi", pd.MultiIndex.from_arrays([[0]*4+[1]*4, list(range(4))*2]))
r = compute_taxes_and_transfers(df, params, functions, debug=True)
print(r.shape, "p_id" in r)
d = df.copy(); d.index=[0]*n
try:
    r = compute_taxes_and_transfers(d, params, functions, debug=True); print("debug dups ok", r.shape)
except Exception as e: print("debug dups", type(e).__name__, str(e)[:100])
