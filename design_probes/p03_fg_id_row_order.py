import numpy as np
from _gettsim.groupings import fg_id_numpy, eg_id_numpy, ehe_id_numpy, sn_id_numpy, bg_id_numpy
def part(ids, p):
    d={}
    for i,g in zip(p,ids): d.setdefault(g,set()).add(i)
    return sorted(map(sorted,d.values()))
# A(0) & B(1) partners; C(2) child of B only
import itertools
rows = {0:dict(hh=0,alter=40,ep=1,e1=-1,e2=-1), 1:dict(hh=0,alter=38,ep=0,e1=-1,e2=-1), 2:dict(hh=0,alter=10,ep=-1,e1=1,e2=-1)}
for perm in itertools.permutations([0,1,2]):
    p=np.array(perm); 
    f=fg_id_numpy(p, np.array([rows[i]['hh'] for i in perm]), np.array([rows[i]['alter'] for i in perm]), np.array([rows[i]['ep'] for i in perm]), np.array([rows[i]['e1'] for i in perm]), np.array([rows[i]['e2'] for i in perm]))
    print(perm, part(f,perm))
print("--- P(0), child C(1, 20y) with partner D(2)")
rows = {0:dict(hh=0,alter=50,ep=-1,e1=-1,e2=-1), 1:dict(hh=0,alter=20,ep=2,e1=0,e2=-1), 2:dict(hh=0,alter=21,ep=1,e1=-1,e2=-1)}
for perm in itertools.permutations([0,1,2]):
    p=np.array(perm); 
    f=fg_id_numpy(p, np.array([rows[i]['hh'] for i in perm]), np.array([rows[i]['alter'] for i in perm]), np.array([rows[i]['ep'] for i in perm]), np.array([rows[i]['e1'] for i in perm]), np.array([rows[i]['e2'] for i in perm]))
    print(perm, part(f,perm))
