import itertools, random
import numpy as np
from _gettsim.groupings import fg_id_numpy as old
def new(p_id, hh_id, alter, ep, e1, e2):
    idx = {p:i for i,p in enumerate(p_id)}
    children = {}
    for i,p in enumerate(p_id):
        for par in (e1[i], e2[i]):
            if par >= 0: children.setdefault(par, []).append(p)
    root = {p:p for p in p_id}
    def find(x):
        while root[x]!=x:
            root[x]=root[root[x]]; x=root[x]
        return x
    for i,p in enumerate(p_id):
        if ep[i] >= 0: root[find(ep[i])] = find(p)
        for c in children.get(p, []):
            ci = idx[c]
            if hh_id[ci]==hh_id[i] and alter[ci]<25 and len(children.get(c,[]))==0 and ep[ci]<0:
                root[find(c)] = find(p)
    out={}; res=[]
    for p in p_id:
        r=find(p); out.setdefault(r,len(out)); res.append(out[r])
    return np.asarray(res)
def part(ids,p):
    d={}
    for i,g in zip(p,ids): d.setdefault(int(g),set()).add(int(i))
    return sorted(map(sorted,d.values()))
rng = random.Random(0)
stats = dict(total=0, old_indep=0, agree=0, disagree=0, new_dep=0)
examples=[]
for trial in range(6000):
    n = rng.randint(1,5)
    pid = list(range(n))
    hh = [rng.randint(0,1) for _ in pid]
    alter = [rng.choice([3,17,20,24,25,40,70]) for _ in pid]
    ep = [-1]*n
    # reciprocal partner pairs
    free = pid[:]; rng.shuffle(free)
    while len(free)>=2 and rng.random()<0.6:
        a=free.pop(); b=free.pop(); ep[a]=b; ep[b]=a
    e1=[-1]*n; e2=[-1]*n
    for c in pid:
        cands=[p for p in pid if p!=c and alter[p]>alter[c]]   # acyclic by age
        rng.shuffle(cands)
        if cands and rng.random()<0.6: e1[c]=cands[0]
        if len(cands)>1 and rng.random()<0.4: e2[c]=cands[1]
    def run(f, perm):
        a=lambda L: np.array([L[i] for i in perm])
        return part(f(a(pid),a(hh),a(alter),a(ep),a(e1),a(e2)), perm)
    perms=list(itertools.permutations(pid))
    olds={str(run(old,p)) for p in perms}
    news={str(run(new,p)) for p in perms}
    stats['total']+=1
    if len(news)>1: stats['new_dep']+=1
    if len(olds)==1:
        stats['old_indep']+=1
        if olds==news: stats['agree']+=1
        else:
            stats['disagree']+=1
            if len(examples)<5: examples.append((hh,alter,ep,e1,e2,olds,news))
print(stats)
for e in examples: print(e)
