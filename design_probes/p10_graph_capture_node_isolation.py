import warnings, sys
import numpy as np, pandas as pd
import dags, dags.dag
warnings.simplefilter("ignore")
from gettsim import set_up_policy_environment, compute_taxes_and_transfers, create_synthetic_data
captured = []
orig = dags.dag.create_dag
def wrapped(functions, targets):
    g = orig(functions=functions, targets=targets); captured.append((g, dict(functions))); return g
dags.dag.create_dag = wrapped
params, functions = set_up_policy_environment("2022-07-01")
df = create_synthetic_data(n_adults=2, n_children=2, policy_year=2022, specs_heterogeneous={"bruttolohn_m": [[3000.25, 1500.0, 0.0, 0.0],[0.0,0.0,0.0,0.0]]}).drop(columns="hh_typ")
r = compute_taxes_and_transfers(df, params, functions)
dags.dag.create_dag = orig
print("captures:", len(captured), [len(g.nodes) for g,_ in captured])
g, fns = captured[-1]
allnodes = [n for n in g.nodes if n in fns]
full = compute_taxes_and_transfers(df, params, functions, targets=allnodes)
# node isolation for a few nodes
def isolate(node):
    parents = [p for p in g.predecessors(node)]
    data = {"p_id": df["p_id"]}
    for p in parents:
        if p.endswith("_params"): continue
        data[p] = full[p] if p in full else df[p]
    out = compute_taxes_and_transfers(pd.DataFrame(data), params, functions, targets=[node])
    return np.array_equal(out[node].values, full[node].values, equal_nan=True), parents
ok=0; bad=[]
for n in allnodes:
    try:
        eq, par = isolate(n)
        if eq: ok+=1
        else: bad.append((n,"neq"))
    except Exception as e:
        bad.append((n, type(e).__name__+": "+str(e)[:80].replace("\n"," ")))
print("isolation ok", ok, "of", len(allnodes)); print(bad[:25])
