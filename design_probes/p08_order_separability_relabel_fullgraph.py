import warnings, time, sys
import numpy as np, pandas as pd
from gettsim import set_up_policy_environment, compute_taxes_and_transfers
from _gettsim.functions_loader import load_and_check_functions
from _gettsim.interface import set_up_dag
from _gettsim.config import DEFAULT_TARGETS, TYPES_INPUT_VARIABLES
import networkx as nx
warnings.simplefilter("ignore")
PTR = ["p_id_elternteil_1","p_id_elternteil_2","p_id_kindergeld_empf","p_id_erziehgeld_empf","p_id_ehepartner","p_id_einstandspartner","p_id_betreuungsk_träger"]
def base(year, rng):
    rows=[]
    def person(pid, hh, alter, **kw):
        d={}
        for c,t in TYPES_INPUT_VARIABLES.items():
            d[c] = False if t is bool else (0 if t is int else 0.0)
        for c in PTR: d[c]=-1
        d.update(p_id=pid, hh_id=hh, alter=alter, geburtsjahr=year-alter, geburtsmonat=1+rng.integers(12), geburtstag=1+rng.integers(28), kind=alter<18, mietstufe=3,
                 jahr_renteneintr=year-alter+67, monat_renteneintr=1)
        d.update(kw); return d
    # hh0: married couple + 2 kids ; hh1: single parent + kid, + pensioner couple hh2 ; hh3 unmarried patchwork
    rows += [person(0,0,40,p_id_ehepartner=1,p_id_einstandspartner=1,gemeinsam_veranlagt=True,bruttolohn_m=3000.,arbeitsstunden_w=40.,steuerklasse=3,grundr_zeiten=200,grundr_bew_zeiten=200,grundr_entgeltp=15.5,m_pflichtbeitrag=200.),
             person(1,0,38,p_id_ehepartner=0,p_id_einstandspartner=0,gemeinsam_veranlagt=True,bruttolohn_m=450.,arbeitsstunden_w=10.,steuerklasse=5,weiblich=True),
             person(2,0,8,p_id_elternteil_1=0,p_id_elternteil_2=1,p_id_kindergeld_empf=0), person(3,0,3,p_id_elternteil_1=0,p_id_elternteil_2=1,p_id_kindergeld_empf=0,p_id_betreuungsk_träger=1,betreuungskost_m=200.)]
    rows += [person(4,1,35,alleinerz=True,bruttolohn_m=1300.5,arbeitsstunden_w=25.,steuerklasse=2,weiblich=True), person(5,1,6,p_id_elternteil_1=4,p_id_kindergeld_empf=4,kind_unterh_anspr_m=300.,kind_unterh_erhalt_m=100.)]
    rows += [person(6,2,70,rentner=True,p_id_ehepartner=7,p_id_einstandspartner=7,gemeinsam_veranlagt=True,entgeltp_west=30.5,grundr_zeiten=420,grundr_bew_zeiten=400,grundr_entgeltp=20.25,priv_rente_m=100.,jahr_renteneintr=year-5,m_pflichtbeitrag=480.),
             person(7,2,68,rentner=True,p_id_ehepartner=6,p_id_einstandspartner=6,gemeinsam_veranlagt=True,entgeltp_west=10.,weiblich=True,jahr_renteneintr=year-3)]
    rows += [person(8,3,45,p_id_einstandspartner=9,bruttolohn_m=2000.,arbeitsstunden_w=38.,steuerklasse=1), person(9,3,41,p_id_einstandspartner=8,bruttolohn_m=800.,arbeitsstunden_w=15.,steuerklasse=2,weiblich=True),
             person(10,3,12,p_id_elternteil_1=9,p_id_kindergeld_empf=9), person(11,3,20,p_id_elternteil_1=8,p_id_kindergeld_empf=8,in_ausbildung=True,bruttolohn_m=600.,arbeitsstunden_w=20.,eigenbedarf_gedeckt=True)]
    df = pd.DataFrame(rows)
    hhvals = {0:(700.,90.,85.),1:(450.,60.,55.),2:(500.,70.,60.),3:(900.,120.,110.)}
    df["bruttokaltmiete_m_hh"]=df.hh_id.map(lambda h:hhvals[h][0]); df["heizkosten_m_hh"]=df.hh_id.map(lambda h:hhvals[h][1]); df["wohnfläche_hh"]=df.hh_id.map(lambda h:hhvals[h][2])
    for c,t in TYPES_INPUT_VARIABLES.items():
        df[c]=df[c].astype(t)
    return df
date = sys.argv[1] if len(sys.argv)>1 else "2022-07-01"
rng=np.random.default_rng(1)
params, functions = set_up_policy_environment(date)
df = base(int(date[:4]), rng)
fn, fo = load_and_check_functions(functions, DEFAULT_TARGETS, list(df), {}, {})
dag = set_up_dag(fn, DEFAULT_TARGETS, set(fo), "ignore")
allnodes=[n for n in nx.lexicographical_topological_sort(dag) if n in fn]
def run(d):
    try:
        return compute_taxes_and_transfers(d.reset_index(drop=True), params, functions, targets=allnodes)
    except Exception as e:
        return e
r0 = run(df)
if isinstance(r0, Exception): print("base raises", type(r0).__name__, r0); sys.exit()
print("nodes", len(allnodes), "rows", len(df))
IDS = {"fg_id","bg_id","eg_id","ehe_id","sn_id","wthh_id"}
def part(ids, pid):
    d={}
    for p,g in zip(pid,ids): d.setdefault(g,[]).append(p)
    return sorted(sorted(v) for v in d.values())
def compare(r0,pid0,r1,pid1,label):
    if isinstance(r1,Exception): print(label,"raises",type(r1).__name__,str(r1)[:100]); return
    a=r0.copy(); a["__p"]=list(pid0); a=a.set_index("__p")
    b=r1.copy(); b["__p"]=list(pid1); b=b.set_index("__p").loc[a.index.intersection(list(pid1))]
    a=a.loc[b.index]
    bad=[]
    for c in allnodes:
        if c in IDS:
            if part(a[c].values,a.index)!=part(b[c].values,b.index): bad.append(c)
        else:
            x=a[c].values; y=b[c].values
            try: eq = np.array_equal(x.astype(float),y.astype(float),equal_nan=True)
            except Exception: eq = (x==y).all()
            if not eq: bad.append(c)
    # frontier
    badset=set(bad); frontier=[c for c in bad if not (set(dag.predecessors(c)) & badset)]
    print(label, "divergent:", len(bad), "frontier:", frontier)
n=len(df)
for i in range(n):
    perm = list(range(i,n))+list(range(0,i))
    d=df.iloc[perm]
    compare(r0, df.p_id.values, run(d), d.p_id.values, f"rot{i}")
perm=list(range(n))[::-1]; d=df.iloc[perm]; compare(r0, df.p_id.values, run(d), d.p_id.values, "reversed")
# C02: each household cluster alone vs together
for hh in sorted(df.hh_id.unique()):
    d=df[df.hh_id==hh]
    compare(r0, df.p_id.values, run(d), d.p_id.values, f"alone hh{hh}")
# relabel
mp = {p: 1000+7*p for p in df.p_id}; d=df.copy(); d["p_id"]=d.p_id.map(mp); d["hh_id"]=d.hh_id*13+5
for c in PTR: d[c]=d[c].map(lambda v: mp[v] if v>=0 else -1)
r1=run(d)
if not isinstance(r1,Exception):
    compare(r0, df.p_id.values, r1, df.p_id.values, "relabel")
else: print("relabel raises", r1)
