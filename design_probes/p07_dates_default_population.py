import warnings, time
import numpy as np, pandas as pd
from gettsim import set_up_policy_environment, compute_taxes_and_transfers
from _gettsim.functions_loader import load_and_check_functions
from _gettsim.interface import set_up_dag
from _gettsim.config import DEFAULT_TARGETS, TYPES_INPUT_VARIABLES
warnings.simplefilter("ignore")
def base(year):
    n=4
    d = {}
    for c,t in TYPES_INPUT_VARIABLES.items():
        d[c] = [False]*n if t is bool else ([0]*n if t is int else [0.0]*n)
    df = pd.DataFrame(d)
    df["p_id"]=range(n); df["hh_id"]=0
    for c in ["p_id_elternteil_1","p_id_elternteil_2","p_id_kindergeld_empf","p_id_erziehgeld_empf","p_id_ehepartner","p_id_einstandspartner","p_id_betreuungsk_träger"]:
        df[c]=-1
    df["alter"]=[40,38,8,3]; df["geburtsjahr"]=year-df["alter"]; df["geburtsmonat"]=1; df["geburtstag"]=1
    df.loc[[0,1],"p_id_ehepartner"]=[1,0]; df.loc[[0,1],"p_id_einstandspartner"]=[1,0]
    df.loc[[2,3],"p_id_elternteil_1"]=0; df.loc[[2,3],"p_id_elternteil_2"]=1; df.loc[[2,3],"p_id_kindergeld_empf"]=0
    df["kind"]=[False,False,True,True]; df["gemeinsam_veranlagt"]=[True,True,False,False]
    df["bruttolohn_m"]=[3000.,1200.,0.,0.]; df["arbeitsstunden_w"]=[40.,20.,0.,0.]
    df["bruttokaltmiete_m_hh"]=700.; df["heizkosten_m_hh"]=90.; df["wohnfläche_hh"]=80.; df["mietstufe"]=3
    df["steuerklasse"]=[3,5,0,0]; df["jahr_renteneintr"]=df["geburtsjahr"]+67; df["monat_renteneintr"]=1
    return df
for date in ["2015-01-01","2016-07-01","2017-01-01","2018-07-01","2019-01-01","2020-02-29","2021-12-31","2023-01-01","2024-07-01","2025-01-01"]:
    y=int(date[:4])
    try:
        params, functions = set_up_policy_environment(date)
        df = base(y)
        fn, fo = load_and_check_functions(functions, DEFAULT_TARGETS, list(df), {}, {})
        dag = set_up_dag(fn, DEFAULT_TARGETS, set(fo), "ignore")
        roots = {n for n in dag.nodes if not list(dag.predecessors(n))}
        missing = sorted(r for r in roots if r not in df and r not in fn)
        print(date, "missing roots:", missing, "overridden:", sorted(fo))
        for m in missing: df[m]=0.0
        r = compute_taxes_and_transfers(df, params, functions)
        allnodes=[n for n in dag.nodes if n in fn]
        r2 = compute_taxes_and_transfers(df, params, functions, targets=allnodes)
        print("   ok", r.shape, r2.shape, int(r2.isna().sum().sum()))
    except Exception as e:
        import traceback
        print(date, "FAIL", type(e).__name__, str(e)[:300].replace("\n"," "))
