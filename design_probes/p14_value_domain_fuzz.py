import warnings, sys, collections, random, traceback
import numpy as np, pandas as pd
warnings.simplefilter("ignore")
sys.argv=[sys.argv[0]]+sys.argv[1:]
exec(open(__import__('os').path.join(__import__('os').path.dirname(__file__),'p08_order_separability_relabel_fullgraph.py')).read().split("date = sys.argv[1]")[0])
from gettsim import set_up_policy_environment, compute_taxes_and_transfers
date = sys.argv[1]; year=int(date[:4])
params, functions = set_up_policy_environment(date)
rng = random.Random(5); nrng=np.random.default_rng(1)
df0 = base(year, nrng)
import dags.dag
cap=[]; orig=dags.dag.create_dag
def w(functions, targets):
    g=orig(functions=functions,targets=targets); cap.append((g,dict(functions))); return g
dags.dag.create_dag=w
compute_taxes_and_transfers(df0, params, functions); dags.dag.create_dag=orig
g,fns=cap[-1]; allnodes=[n for n in g.nodes if n in fns]
floats=[c for c,t in TYPES_INPUT_VARIABLES.items() if t is float and not c.endswith("_hh")]
ints=[c for c,t in TYPES_INPUT_VARIABLES.items() if t is int and not c.startswith("p_id") and c not in("hh_id","alter","geburtsjahr","geburtsmonat","geburtstag","immobilie_baujahr_hh")]
bools=[c for c,t in TYPES_INPUT_VARIABLES.items() if t is bool and not c.endswith("_hh") and c not in ("gemeinsam_veranlagt","kind")]
INTDOM={"mietstufe":[1,2,3,4,5,6,7],"steuerklasse":[1,2,3,4,5,6],"monat_renteneintr":list(range(1,13)),"behinderungsgrad":[0,20,50,80,100],"monate_elterngeldbezug":[0,1,6,12,14],
        "grundr_zeiten":[0,100,395,396,420,480],"grundr_bew_zeiten":[0,100,400,480],"jahr_renteneintr":[year-3,year,year+10,year+30]}
errs=collections.Counter(); ok=0; N=int(sys.argv[2]) if len(sys.argv)>2 else 150
nan_nodes=collections.Counter()
for t in range(N):
    df=df0.copy()
    for c in rng.sample(floats, 12):
        df[c]=[rng.choice([0.0,0.25,100.0,450.0,520.0,538.0,1000.5,2000.0,4987.5,7100.0,7300.0,25000.0,1e6])*(1 if c!="eink_vermietung_m" else rng.choice([1,-1])) for _ in range(len(df))]
    for c in rng.sample(ints, 6):
        dom=INTDOM.get(c,[0,1,2,5,12,40]); df[c]=[rng.choice(dom) for _ in range(len(df))]
    for c in rng.sample(bools, 8):
        df[c]=[rng.random()<0.4 for _ in range(len(df))]
    # hh-level
    for hh in df.hh_id.unique():
        m=df.hh_id==hh
        df.loc[m,"bewohnt_eigentum_hh"]=rng.random()<0.3; df.loc[m,"immobilie_baujahr_hh"]=rng.choice([0,1950,1990,2015]); df.loc[m,"mietstufe"]=rng.choice([1,3,7])
    try:
        r=compute_taxes_and_transfers(df, params, functions, targets=allnodes); ok+=1
        bad = [c for c in r.columns if r[c].dtype.kind=="f" and not np.isfinite(r[c].values).all()]
        for c in bad: nan_nodes[c]+=1
    except Exception as e:
        tb=traceback.extract_tb(e.__traceback__)
        loc=[f for f in tb if "_gettsim" in f.filename or "<ast>" in f.filename]
        where=(loc[-1].filename.split("/")[-1]+":"+loc[-1].name) if loc else "?"
        errs[(type(e).__name__, str(e)[:60].replace("\n"," "), where)]+=1
print(date, "ok", ok, "of", N)
for k,v in errs.most_common(12): print("  ", v, k)
print("  nonfinite nodes:", nan_nodes.most_common(8))
