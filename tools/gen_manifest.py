#!/venv/bin/python
"""Writes /verif/MANIFEST.json (kept as a script so the file stays consistent)."""
import json
import os
import subprocess

HERE = os.path.dirname(os.path.dirname(os.path.abspath(__file__)))

NA = {
    "C03": "pure per-row function equality (column vs. scalar rule): no order, state, fault or history in the statement; deciding it is property-based/differential testing, not simulation (DESIGN 0, 5)",
    "C04": "value of a column under two target sets: a metamorphic relation between two stateless calls of a pure function; nothing to schedule or fault",
    "C05": "supplying a computed column vs. computing it: two stateless calls of a pure function; nothing to schedule or fault",
    "C06": "reform locality is a statement about the dependency graph of a pure function; only its copy/deep-copy clause has a state flavour and that slice is exercised inside the C14 machine without claiming C06",
    "C07": "date -> environment is a pure function of an argument; the code reads no clock, so walking the calendar is configuration enumeration, not simulated time",
    "C08": "static completeness of rules vs. parameters per date; no run-time nondeterminism, fault or history involved",
    "C09": "semantic equivalence of an AST rewrite over all programs and inputs is translation validation; its side-effect clause (module and later simulations unaffected) is a history property and is decided under C14 (op REWRITE)",
    "C10": "rounding is a pure post-processing step of one call; 'exactly once' is about function composition, not repeated delivery",
    "C11": "aggregates vs. their mathematical definition: pure, needs an independent reference aggregator, not a simulator",
    "C12": "partition vs. legal definition needs an independent reference model of a pure function; only its row-order slice is a simulation target and that is C01",
    "C13": "fixed conversion factors between columns of one stateless call",
    "C15": "per-call invariant of a pure function (constant within group)",
    "C16": "range/finiteness of a pure function over inputs",
    "C17": "mutual exclusion of benefit values inside one stateless call: no concurrent actors, nothing to interleave",
    "C18": "analytic properties of schedules (continuity, convexity): proof / exact arithmetic territory",
    "C19": "shape of a pure function along the wage axis",
}

CHECKS = {
    "C14": {
        "category": "exploration",
        "text": "Seeded search over histories of public-API calls (set-up, simulate with user aggregation specs / what-if variants of a population / long-lived data objects, in-place reform and revert, alias/deep copy, function replacement incl. overrides of derived columns and user modules by path, array-form rewrite, malformed-data calls) executed in ONE long-lived process, with injected faults: abort at a seeded line event, crash-point sweeps (one kind of call aborted on a regular grid of line events), parameter-file read errors and short reads, failing or incomplete directory listings, a user module that fails once, permuted directory enumeration, different hash seed. Every comparable call is compared bitwise with the same call in a pristine process; every caller-owned object is snapshotted around every library call. Sampling, not proof; each history is a pure function of (VERIF_SEED, index) and replays exactly.",
        "design_ref": "DESIGN.md 2, 4.3",
        "note": "Trusted: a forked child of a zygote that imported gettsim and called nothing equals a fresh process (validated on every run by cold brand-new-interpreter references); exception messages and warnings are not compared; numpy backend only.",
        "technique": "deterministic simulation: seeded API-history search in one process with abort/I-O/enumeration-order fault injection, pristine-process twin as reference model, ddmin-minimised replay files",
    },
    "C01": {
        "category": "exploration",
        "text": "Seeded search over row arrival orders (every rotation so that each row is first once, reversal, children-before-parents, partner swaps, uniform permutations; all n! orders for small populations on the id targets), index labellings and input forms of generated valid populations, on every node of the dependency graph of the default targets. Oracle: the canonical-order run of the same population, person by person, derived ids as partitions, float noise resolved by node isolation.",
        "design_ref": "DESIGN.md 2.6, 4.1",
        "note": "Borderline for this technique family and stated as such: the 'schedule' is the order in the data, there is no clock, concurrency or fault. Oracle is the system itself in canonical order; E/C/F tolerance 1e-9 with node isolation; populations from /verif's own generator.",
        "technique": "deterministic simulation (schedule = row arrival order): seeded permutation/labelling search against the canonical-order run, first-divergent-frontier oracle, minimised replay files",
    },
    "C02": {
        "category": "exploration",
        "text": "Two closed cluster sets A (focus) and B (bystanders) are multiplexed into one table in seeded interleavings that preserve A's internal order, and identifiers are relabelled injectively and consistently; A's results must equal simulate(A) alone on every node of the dependency graph, derived groups must not mix A and B, pointer-valued outputs map through the relabelling.",
        "design_ref": "DESIGN.md 2.6, 4.2",
        "note": "Borderline for this technique family (no clock, concurrency or faults). Identifier ranges bounded (p_id < 10^6, hh_id < 10^4) because group-id arithmetic allocates by magnitude; E/C/F tolerance with node isolation.",
        "technique": "deterministic simulation (two row producers multiplexed under a seeded interleaving) plus seeded identifier relabelling, separate-run reference, minimised replay files",
    },
    "C20": {
        "category": "fault_enumeration",
        "text": "Every enumerated class of input corruption (missing/duplicate p_id, dangling or self pointers, household-level inputs varying within a household, contradictory joint-assessment flags, missing required column, duplicate column, values not convertible without change) injected at every eligible row/column of valid base populations (singles exhaustively in thorough, pairs sampled); the call must raise. Lossless dtype variants must return bit-identical results and announce the conversion by a warning.",
        "design_ref": "DESIGN.md 4.4",
        "note": "Any Exception counts as rejection; fault classes are those of the statement; base populations from /verif's own generator; only conversions GETTSIM's coercion path performs.",
        "technique": "fault injection: enumerated single faults at every eligible position plus seeded fault pairs on generated populations, fail-stop oracle; lossless-variant equality oracle",
    },
}


def main():
    claimed = [c for c in ("C01", "C02", "C14", "C20") if os.path.exists(os.path.join(HERE, "sim", f"{c.lower()}_driver.py"))]
    repo_commits = subprocess.run(["git", "-C", "/repo", "log", "--format=%h %s"], capture_output=True, text=True).stdout.splitlines()
    checks = []
    for c in claimed:
        d = CHECKS[c]
        checks.append(
            {
                "property_id": c,
                "quick_cmd": f"./check {c} --tier quick",
                "thorough_cmd": f"./check {c} --tier thorough",
                "evidence_file": f"evidence/{c}.json",
                "replay_cmd_template": "./check replay {path}",
                "engine": "sim",
                "level_claimed": {"category": d["category"], "text": d["text"], "design_ref": d["design_ref"]},
                "level_note": d["note"],
                "technique": d["technique"],
            }
        )
    na = [{"property_id": k, "reason": v} for k, v in NA.items()]
    for c in ("C01", "C02", "C20"):
        if c not in claimed:
            na.append({"property_id": c, "reason": "simulation target per DESIGN.md; its check is not built yet in this commit, so nothing is claimed"})
    na.sort(key=lambda x: x["property_id"])
    m = {
        "version": 1,
        "setup_cmd": "./setup.sh",
        "hooks": {
            "guard": "GETTSIM_VERIF",
            "enable": "no hook exists in /repo: every seam (API call order, table contents, sys.monitoring line events, pathlib.Path.read_text/rglob, PYTHONHASHSEED) is reachable from outside the package; the guard name is reserved only",
            "baseline_off_cmd": "cd /repo && /venv/bin/python -m pytest -ra -q -p no:cacheprovider --timeout=900 --continue-on-collection-errors",
            "source_commits": [],
            "add_only": True,
        },
        "engines": [
            {
                "name": "sim",
                "path": "sim/",
                "serves_properties": claimed,
                "kind_free_text": "own deterministic simulator: 16 logical slots with pristine fork-server zygotes (distinct PYTHONHASHSEED), runs = pure functions of (VERIF_SEED, property, index), seeded fault injection (abort at line events via sys.monitoring, read errors/short reads, directory order), pristine-process reference, ddmin shrinking, explicit replay files",
            }
        ],
        "checks": checks,
        "notes": "Exit 0 = held on everything explored (KNOWN-FINDING lines possible), 1 = VIOLATION line with replay file, 2 = harness error (never a verdict). fix: commits in /repo: " + "; ".join(x for x in repo_commits if " fix:" in x),
        "not_applicable": na,
    }
    with open(os.path.join(HERE, "MANIFEST.json"), "w") as f:
        json.dump(m, f, indent=1, ensure_ascii=False)
        f.write("\n")
    print("claimed:", claimed)


if __name__ == "__main__":
    main()
