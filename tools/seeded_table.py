#!/venv/bin/python
"""Prints the markdown table of DESIGN.md section 12 from /verif/seeded/*/meta.json and
writes the short descriptions into each meta.json (needs_to_manifest / what)."""
import glob
import json
import os

VERIF = os.path.dirname(os.path.dirname(os.path.abspath(__file__)))

DESC = {
    "c01a-1-join-fast-1000": ("join_numpy: argsort/searchsorted fast path above 1000 rows indexes the unsorted target with sorted positions", "table > 1000 rows and p_id column not ascending"),
    "c01a-2-conv-drops-index": ("int->float conversion rebuilds the Series without the caller's index; debug output then aligns by label", "debug=True + non-default index + a float input supplied as integer column"),
    "c01a-3-bg-adjacent2": ("bg_id_numpy vectorised; 'family start' detected as fg_id[i] != fg_id[i-1]", ">= 2 children < 25 covering their own needs in one family, separated by a row of another family"),
    "c01b-1-bg-adjacent3": ("bg_id_numpy numpy rewrite, counter restarts at every run of rows", "same as above (independent author)"),
    "c01b-2-join-blocks-1024": ("join_numpy processes primary keys in blocks of 1024, block-local index used without offset", "table > 1024 rows and the referenced person at row >= 1024"),
    "c01b-3-sum-by-pid-dense": ("sum_by_p_id: numpy.add.at with a fast path 'ids are 0..n-1' that uses p_id as row position", "p_id is a permutation of 0..n-1 and rows are not in ascending p_id order"),
    "c01c-1-results-series-index": ("_prepare_results wraps every result column in a Series with a RangeIndex; debug mode aligns by label", "debug=True and an input index that is not 0..n-1 in order"),
    "c01c-2-sum-by-pid-cache": ("sum_by_p_id keeps the p_id->position map in a module-level cache keyed by (len, first, last, sum)", "two calls in one process on the same p_ids in different row orders with first and last row unchanged"),
    "c01c-3-string-annotation": ("float-annotation test 'generalised' to issubclass(annotation, float): string annotations lose otypes=[float]", "user rule from a module with `from __future__ import annotations` returning an int literal for the first row"),
    "c02a-1-join-fast-256": ("join_numpy: searchsorted fast path above 2**16 comparison cells, missing sorter[...]", "table > 256 rows and non-ascending p_id"),
    "c02a-2-bg-adjacent": ("bg_id_numpy cumulative count assumes a family's rows are adjacent", "B's row interleaved between two own-needs children of A"),
    "c02a-3-cumsum-sum": ("grouped_sum via sort + one table-wide cumsum + differences at group ends", "float sums of A carry the rounding error of all groups sorted before it (1e-12 noise, 1 EUR where the law rounds)"),
    "c02b-1-join-dense-perm": ("join_numpy fast path: min==0 and max==n-1 => foreign key used as row position", "whole table's p_id is a dense non-identity permutation of 0..n-1 (e.g. p -> n-1-p)"),
    "c02b-2-pid-float": ("sum_by_p_id via pandas groupby; masking -1 with Series.where casts ids to float64", "p_id relabelled beyond 2**53"),
    "c02b-3-bg-global-count": ("bg_id = fg_id*100 + table-wide cumulative count of own-needs children", ">= 100 own-needs persons under 25 before A in the table"),
    "c02c-1-sum-by-pid-unsort": ("sum_by_p_id via argsort + searchsorted + add.at, result not un-sorted", "p_id column not ascending (A with larger ids stacked before B, or order-changing relabelling)"),
    "c02c-2-bg-zero-falsy": ("`p_id_to_bg_id.get(e) or -1`: bg_id 0 (first family of the table) is falsy", "household first in the table and the child's own income covers the need of the whole Bedarfsgemeinschaft"),
    "c02c-3-fg-cache-no-hh": ("single-entry cache of the last fg_id result keyed by p_id/alter/pointers but not hh_id", "two consecutive calls with the same persons but another household assignment (what-if: adult child moves out)"),
    "c14a-1-yaml-lru2": ("lru_cache'd yaml reader; only the first level of a parameter is copied", "reform a deeply nested parameter in place, then set up any date of the same policy period"),
    "c14a-2-staffelung-fill": ("kindergeld_gestaffelt_m fills the schedule dict in place (the caller's params)", "year <= 2022 and a recipient with >= 5 entitled children"),
    "c14a-3-aggdict-setdefault": ("lru_cache on load_aggregation_dict + setdefault of the automatic group sums into the cached dict", "baseline run first, then a reform that supplies an own function for an automatically derived group-sum column"),
    "c14b-1-yaml-lru": ("lru_cache'd _read_yaml_file; nested dicts shared by every environment", "in-place reform of a doubly nested value, then set-up of the same date"),
    "c14b-2-aggdict-lru": ("lru_cache on load_aggregation_dict + dict.update with the user's by-p_id specs", "a call with non-empty aggregate_by_p_id_specs (override or invalid), then any later call"),
    "c14b-3-reset-index": ("reset_index(drop=True, inplace=True) on every Series of the caller's dict", "dict-of-Series data carrying a non-default index"),
    "c14c-1-params-cache-partial": ("per-date params cache published before it is complete", "a set-up for date d aborted mid-way (interrupt), then another set-up for d"),
    "c14c-2-rewrite-restore-window": ("make_vectorizable execs in the live module globals and restores the binding afterwards, no try/finally", "rewrite interrupted in the few lines between exec and restore"),
    "c14c-3-module-cache-partial": ("modules loaded from a Path cached by (path, mtime) and registered before exec_module", "user module that raises half-way on first load for an outside reason, then loads fine"),
    "c14d-1-hashseed-timeconv": ("data_cols turned into a set in create_time_conversion_functions: overwrite order = string-hash order", "same quantity supplied in two time units + a third unit requested; different PYTHONHASHSEED"),
    "c14d-2-short-read-cached": ("lru_cache'd parameter-file reader", "first read of a file in the process returns a truncated but valid YAML text; later fault-free set-up"),
    "c14d-3-listing-partial": ("'discover internal modules once' list filled behind an `if not list` guard", "the first directory walk of the process raises EIO once; later set-ups"),
    "c01d-1-sum-by-pid-inverse": ("sum_by_p_id via argsort/searchsorted/bincount maps the per-rank sums back with the forward instead of the inverse permutation", "row order whose p_id-sorting permutation is not its own inverse (rotation, most shuffles; not a swap or reversal)"),
    "c01d-2-grouped-max-datetime": ("grouped_max (datetime branch) uses numpy.maximum.at on an array seeded with column[0]", "user aggregation spec 'max' over a datetime column and a first row later than another group's maximum"),
    "c01d-3-eg-id-array": ("eg_id_numpy: dict replaced by an array of length max(p_id)+1, the partner >= 0 guard dropped (-1 reads the last element)", "person with the largest p_id opens an Einstandsgemeinschaft and sits before a person without partner"),
    "c14e-1-load-functions-alias": ("_load_functions keeps the first source dict and .update()s it: the caller's functions dict is aliased and mutated", "reform call functions=[policy_functions, rule], then a baseline call with policy_functions"),
    "c14e-2-ast-lru": ("lru_cache on the 'source -> ast' helper while the transformer rewrites trees in place", "the same function rewritten for two different backends (numpy, then jax) in one process"),
    "c14e-3-seterr-leak": ("numpy.seterr(...) ... restore with the raise in between: numpy's error state is not restored on that failure path", "a call rejected for an int beyond 2**53 in a float column, then a call by a user running numpy in strict mode"),
    "c20c-1-hh-nan-nunique": ("household constancy test via groupby().nunique() > 1 (ignores NaN)", "one member's *_hh value missing (NaN) while the others carry a number"),
    "c20c-2-fk-negative": ("pointer check filters rows with fk >= 0 instead of whitelisting -1", "dangling pointer that is negative but not -1"),
    "c20c-3-warn-once": ("conversion warning only for conversions not yet announced in this process", "a second call in the same process converting a column of the same name and dtype"),
    "c20d-1-mod1-check": ("float->int check replaced by (x % 1 == 0).all()", "integral float with |x| >= 2**63"),
    "c20d-2-warning-first-pass": ("conversion split into two passes; the warning is guarded by the first pass only", "the only converted columns are ones that override a policy function"),
    "c20d-3-warn-memo": ("'reduce noise' memo: the warning is emitted once per identical set of conversions per process", "a later call with the same converted columns and dtypes"),
    "c20a-1-allclose": ("float->int exactness test replaced by allclose(out, out.round())", "float for an int input within 1e-8+1e-5*|x| of an integer"),
    "c20a-2-sn-check-moved2": ("sn_id_numpy: spouse look-up and consistency check only inside `if gemeinsam_veranlagt`", "contradictory spouses where the one with True comes earlier in the table"),
    "c20a-3-checked-cache": ("'already checked' WeakValueDictionary keyed by (id(df), shape, columns) skips the input checks", "valid DataFrame simulated, the same object corrupted in place, passed again"),
    "c20b-1-fk-fastpath": ("foreign-key check fast path for consecutive p_ids: between(-1, max) instead of isin", "consecutive p_ids not starting at 0 and a pointer into [0, min p_id)"),
    "c20b-2-float-int-range": ("float->int check replaced by isfinite & (x % 1 == 0)", "integral float beyond the int64 range (2.0**63, 1e19)"),
    "c20b-3-sn-check-moved": ("sn_id_numpy check moved inside the joint-assessment branch", "same as c20a-2 (independent author)"),
}


def main():
    rows = []
    for d in sorted(glob.glob(os.path.join(VERIF, "seeded", "*"))):
        mp = os.path.join(d, "meta.json")
        if not os.path.exists(mp):
            continue
        m = json.load(open(mp))
        what, needs = DESC.get(m["id"], ("", m.get("needs_to_manifest", "")))
        m["what"] = what
        m["needs_to_manifest"] = needs
        json.dump(m, open(mp, "w"), indent=1, ensure_ascii=False)
        det = m.get("detection", {})
        cells = []
        for k in sorted(det):
            e = det[k]["exit"]
            cells.append(f"{k.replace('@seed', '/s')}:{'caught' if e == 1 else 'missed' if e == 0 else 'no verdict'}")
        conf = m.get("confirmed_on_repo")
        c2 = f"{conf['check']}/s{conf['seed']}: exit {conf['exit']}" if conf else "-"
        rows.append(f"| `{m['id']}` | {m['breaks_property']} | {what} | {needs} | {', '.join(cells)} | {c2} |")
    print("| id | breaks | change | needs, to manifest | quick checks against a scratch worktree (seed 0, 1) | confirmed on /repo (git apply; check; git checkout) |")
    print("|---|---|---|---|---|---|")
    print("\n".join(rows))


if __name__ == "__main__":
    main()
