#!/bin/sh
# Final confirmation the prescribed way: apply each kept seeded change to /repo itself,
# run the check(s) that should catch it, undo it straight afterwards.
# usage: tools/confirm_seeded.sh [id ...]     (default: all of /verif/seeded)
cd /verif || exit 2
ids="$*"; [ -z "$ids" ] && ids=$(ls seeded)
for id in $ids; do
  d=/verif/seeded/$id
  [ -f "$d/patch.diff" ] || continue
  git -C /repo diff --quiet || { echo "/repo is dirty, refusing"; exit 2; }
  check=$(/venv/bin/python -c "import json;m=json.load(open('$d/meta.json'));c=m.get('caught_by') or [];print(c[0] if c else m['breaks_property']+'@seed0')")
  prop=${check%@*}; seed=${check#*@seed}
  git -C /repo apply --whitespace=nowarn "$d/patch.diff" || { echo "$id: patch does not apply"; continue; }
  out=$(VERIF_SEED=$seed VERIF_EVIDENCE_DIR=/tmp/ev_confirm ./check "$prop" --tier quick 2>&1); rc=$?
  git -C /repo checkout -- .
  echo "$id: ./check $prop (seed $seed) on /repo with patch applied -> exit $rc $(echo "$out" | grep -c '^VIOLATION') VIOLATION line(s)"
  /venv/bin/python - "$d/meta.json" "$prop" "$seed" "$rc" <<'PY'
import json, sys
p, prop, seed, rc = sys.argv[1:5]
m = json.load(open(p))
m["confirmed_on_repo"] = {"check": prop, "seed": int(seed), "exit": int(rc), "how": "git -C /repo apply patch.diff; ./check; git -C /repo checkout -- ."}
json.dump(m, open(p, "w"), indent=1, ensure_ascii=False)
PY
done
rm -rf /tmp/ev_confirm
