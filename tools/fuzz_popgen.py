"""Ad-hoc: how often do generated populations compute, per date?  (not a check)"""
import sys, warnings, collections, traceback
sys.path.insert(0, "/verif")
from concurrent.futures import ProcessPoolExecutor
def work(args):
    date, n, seed0 = args
    warnings.simplefilter("ignore")
    from gettsim import set_up_policy_environment
    from sim import popgen, compare
    try:
        params, functions = set_up_policy_environment(date)
    except Exception as e:
        return date, 0, 0, {("SETUP", type(e).__name__, str(e)[:60]): 1}, 0
    stat = popgen.stat_values_from_params(params)
    errs = collections.Counter(); ok = 0; graph = None; closed_bad = 0
    for i in range(n):
        pop = popgen.generate(seed0 + i, int(date[:4]), stat_values=stat)
        if popgen.check_closed(pop): closed_bad += 1
        df = popgen.to_frame(pop)
        if graph is None:
            graph, res = compare.capture_graph(df, params, functions)
            if graph is None: 
                errs[("nograph",)+tuple(res[1:3])] += 1; continue
        res = compare.run_call(df, params, functions, targets=graph["order"])
        if res[0] == "frame": ok += 1
        else: errs[(res[1], res[2][:90])] += 1
    return date, ok, n, dict(errs), closed_bad
if __name__ == "__main__":
    dates = sys.argv[1].split(",")
    n = int(sys.argv[2])
    with ProcessPoolExecutor(16) as ex:
        for date, ok, n_, errs, cb in ex.map(work, [(d, n, 1000*k) for k, d in enumerate(dates)]):
            print(date, f"ok {ok}/{n_} closed_bad={cb}")
            for k, v in sorted(errs.items(), key=lambda kv: -kv[1])[:8]: print("    ", v, k)
