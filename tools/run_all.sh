#!/bin/sh
# Gate before committing: every quick check on the clean tree for several seeds.
cd /verif || exit 2
git -C /repo diff --quiet || { echo "/repo is dirty"; exit 2; }
for s in ${SEEDS:-0 1 2}; do
  for c in C01 C02 C14 C20; do
    out=$(VERIF_SEED=$s VERIF_EVIDENCE_DIR=/tmp/ev_gate ./check $c --tier quick 2>&1); rc=$?
    echo "seed $s $c exit=$rc $(echo "$out" | tail -1)"
    [ $rc -ne 0 ] && echo "$out" | tail -15
  done
done
rm -rf /tmp/ev_gate
