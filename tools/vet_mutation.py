#!/venv/bin/python
"""Vet a candidate seeded change and measure which checks catch it.

usage: tools/vet_mutation.py <source dir with patch.diff, demo.py[, README.md]> <id> <property> [--checks C01,C02] [--skip-suite]

1. scratch worktree of /repo HEAD under /tmp; demo must exit 0 without the patch
2. patch applied; demo must exit != 0; the pinned test suite must show exactly the
   baseline failures
3. the requested checks (default: the property's check) are run against the scratch
   worktree (VERIF_REPO) with seeds 0 and 1; exit codes and VIOLATION lines are recorded
4. worktree removed; /verif/seeded/<id>/{patch.diff,demo.py,meta.json} written
"""
import argparse
import json
import os
import re
import shutil
import subprocess
import sys
import time

VERIF = os.path.dirname(os.path.dirname(os.path.abspath(__file__)))
PY = "/venv/bin/python"
BASELINE_FAIL = 11
BASELINE_PASS = 5426


def sh(cmd, cwd=None, env=None, timeout=3600):
    p = subprocess.run(cmd, cwd=cwd, env=env, capture_output=True, text=True, timeout=timeout, check=False)
    return p.returncode, p.stdout + p.stderr


def main():
    ap = argparse.ArgumentParser()
    ap.add_argument("src")
    ap.add_argument("id")
    ap.add_argument("prop")
    ap.add_argument("--checks", default=None)
    ap.add_argument("--skip-suite", action="store_true")
    ap.add_argument("--seeds", default="0,1")
    ap.add_argument("--needs", default="")
    a = ap.parse_args()
    checks = (a.checks or a.prop).split(",")
    wt = f"/tmp/vet_{a.id}"
    if os.path.exists(wt):
        sh(["git", "-C", "/repo", "worktree", "remove", "--force", wt])
    rc, out = sh(["git", "-C", "/repo", "worktree", "add", "--detach", wt, "HEAD"])
    assert rc == 0, out
    meta = {"id": a.id, "breaks_property": a.prop, "source": a.src, "repo_head": sh(["git", "-C", "/repo", "rev-parse", "--short", "HEAD"])[1].strip(), "ran": []}
    env = dict(os.environ, PYTHONPATH=f"{wt}/src", PYTHONDONTWRITEBYTECODE="1")
    try:
        patch = os.path.join(a.src, "patch.diff")
        demo = os.path.join(a.src, "demo.py")
        readme = os.path.join(a.src, "README.md")
        if os.path.exists(readme):
            meta["author_notes"] = open(readme).read()[:3000]
        rc0, out0 = sh([PY, demo], cwd=wt, env=env, timeout=900)
        meta["demo_without_patch_exit"] = rc0
        meta["ran"].append(f"cd {wt} && PYTHONPATH={wt}/src {PY} demo.py  # clean tree -> exit {rc0}")
        rc, out = sh(["git", "apply", "--whitespace=nowarn", patch], cwd=wt)
        if rc != 0:
            meta["verdict"] = "rejected: patch does not apply: " + out[-300:]
            return finish(a, meta, keep=False)
        rc1, out1 = sh([PY, demo], cwd=wt, env=env, timeout=900)
        meta["demo_with_patch_exit"] = rc1
        meta["demo_with_patch_output"] = out1[-1500:]
        meta["ran"].append(f"git apply patch.diff && PYTHONPATH={wt}/src {PY} demo.py  # -> exit {rc1}")
        if rc0 != 0 or rc1 == 0:
            meta["verdict"] = f"rejected: demo does not discriminate (clean exit {rc0}, patched exit {rc1})"
            return finish(a, meta, keep=False)
        if a.skip_suite:
            prev = os.path.join(VERIF, "seeded", a.id, "meta.json")
            if os.path.exists(prev):
                pm = json.load(open(prev))
                if pm.get("suite_summary"):
                    meta["suite_summary"] = pm["suite_summary"]
                    meta["ran"] += [x for x in pm.get("ran", []) if "pytest" in x]
                    meta["suite_note"] = "suite result carried over from the first vetting of this (unchanged) patch"
        if not a.skip_suite:
            t = time.time()
            rc, out = sh([PY, "-m", "pytest", "-q", "-p", "no:cacheprovider", "-n", "16", "--timeout=900", "--continue-on-collection-errors"], cwd=wt, env=env, timeout=3000)
            tail = out.strip().splitlines()[-1] if out.strip() else ""
            meta["suite_summary"] = tail
            meta["ran"].append(f"PYTHONPATH={wt}/src {PY} -m pytest -q -p no:cacheprovider -n 16 --timeout=900 --continue-on-collection-errors  # {tail} ({time.time() - t:.0f}s)")
            m_f = re.search(r"(\d+) failed", tail)
            m_p = re.search(r"(\d+) passed", tail)
            failed = int(m_f.group(1)) if m_f else 0
            passed = int(m_p.group(1)) if m_p else 0
            names = sorted(set(re.findall(r"^FAILED (\S+)", out, re.M)))
            non_baseline = [n for n in names if "test_visualizations" not in n and "test_fail_if_cannot_be_converted" not in n]
            if failed != BASELINE_FAIL or passed != BASELINE_PASS or non_baseline:
                meta["verdict"] = f"rejected: existing tests notice the change ({tail}; {non_baseline[:5]})"
                return finish(a, meta, keep=False)
        # detection - from a frozen snapshot of the machinery, so that edits in /verif made
        # while this (long) script runs cannot mix two versions within one check run
        snap = f"/tmp/vsnap_{a.id}"
        shutil.rmtree(snap, ignore_errors=True)
        os.makedirs(snap)
        shutil.copytree(os.path.join(VERIF, "sim"), os.path.join(snap, "sim"), ignore=shutil.ignore_patterns("__pycache__"))
        for f in ("check", "known_findings.json"):
            shutil.copy(os.path.join(VERIF, f), os.path.join(snap, f))
        meta["verif_commit"] = sh(["git", "-C", VERIF, "rev-parse", "--short", "HEAD"])[1].strip()
        det = {}
        for c in checks:
            for seed in a.seeds.split(","):
                evdir = f"/tmp/vet_ev_{a.id}"
                os.makedirs(evdir, exist_ok=True)
                cenv = dict(os.environ, VERIF_REPO=wt, VERIF_SEED=seed, VERIF_EVIDENCE_DIR=evdir)
                t = time.time()
                rc, out = sh([os.path.join(snap, "check"), c, "--tier", "quick"], cwd=snap, env=cenv, timeout=7200)
                lines = [ln for ln in out.splitlines() if ln.startswith(("VIOLATION", "KNOWN-FINDING", "HARNESS-ERROR")) or ln.strip().startswith("violation:")]
                det[f"{c}@seed{seed}"] = {"exit": rc, "wall_s": round(time.time() - t), "lines": lines[:8]}
                shutil.rmtree(evdir, ignore_errors=True)
                meta["ran"].append(f"VERIF_REPO={wt} VERIF_SEED={seed} ./check {c} --tier quick  # exit {rc}")
        meta["detection"] = det
        caught = sorted(k for k, v in det.items() if v["exit"] == 1)
        meta["caught_by"] = caught
        meta["verdict"] = "kept: " + ("caught by " + ", ".join(caught) if caught else "MISSED by " + ", ".join(det))
        return finish(a, meta, keep=True)
    finally:
        shutil.rmtree(f"/tmp/vsnap_{a.id}", ignore_errors=True)
        sh(["git", "-C", "/repo", "worktree", "remove", "--force", wt])
        shutil.rmtree(wt, ignore_errors=True)


def finish(a, meta, keep):
    meta["needs_to_manifest"] = a.needs
    prev = os.path.join(VERIF, "seeded", a.id, "meta.json")
    if os.path.exists(prev):
        try:
            pm = json.load(open(prev))
            for k in ("confirmed_on_repo", "what"):
                if k in pm and k not in meta:
                    meta[k] = pm[k]
        except Exception:  # noqa: BLE001
            pass
    d = os.path.join(VERIF, "seeded" if keep else "seeded_rejected", a.id)
    os.makedirs(d, exist_ok=True)
    for f in ("patch.diff", "demo.py"):
        shutil.copy(os.path.join(a.src, f), os.path.join(d, f))
    with open(os.path.join(d, "meta.json"), "w") as f:
        json.dump(meta, f, indent=1, ensure_ascii=False)
        f.write("\n")
    print(a.id, meta["verdict"])
    return 0


if __name__ == "__main__":
    sys.exit(main())
