#!/bin/sh
# Offline set-up: nothing to build.  Verifies that the interpreter, the repo's
# dependencies and the working tree under /repo/src are importable.
set -e
cd "$(dirname "$0")"
PYTHONPATH=/repo/src:/verif /venv/bin/python - <<'PY'
import os, sys
import numpy, pandas, dags, numpy_groupies, networkx, yaml, astor
import _gettsim, gettsim
assert os.path.realpath(_gettsim.__file__).startswith("/repo/src"), _gettsim.__file__
assert hasattr(sys, "monitoring"), "python >= 3.12 required"
import sim.core, sim.zygote, sim.engine
print("setup ok: python", sys.version.split()[0], "numpy", numpy.__version__, "pandas", pandas.__version__)
PY
mkdir -p evidence replays
